//! C14 demo: a pre-shared key that the command line accepts on both ends, configured
//! identically on the server and on the client, must open the tunnel (the server must answer
//! 101 to the client that presents the configured key). A command line that refuses such a
//! key is an acceptable outcome too; silently accepting it and then never answering 101 is not.

use rusty_penguin_lib::arg::{Commands, PenguinCli};
use rusty_penguin_lib::client::{HandlerResources, client_main_inner};
use rusty_penguin_lib::server::server_main;
use std::time::Duration;
use tokio::io::{AsyncReadExt, AsyncWriteExt};
use tokio::net::{TcpListener, TcpStream};

async fn free_port() -> u16 {
    let l = TcpListener::bind("127.0.0.1:0").await.unwrap();
    l.local_addr().unwrap().port()
}

/// Start a real server and a real client from real command lines carrying the same
/// `--ws-psk`, and push a few bytes through a TCP forward. Returns whether the bytes
/// came out at the other end (i.e. whether the server opened the tunnel). A PSK that either
/// command line refuses counts as fine: the operator is told.
async fn tunnel_works_with_psk(psk: &str) -> bool {
    use clap::Parser;
    rusty_penguin_lib::tls::init_crypto_provider();
    let server_port = free_port().await;
    let local_port = free_port().await;
    let target = TcpListener::bind("127.0.0.1:0").await.unwrap();
    let target_port = target.local_addr().unwrap().port();

    let server_cli = PenguinCli::try_parse_from([
        "penguin", "server", "--host", "127.0.0.1", "--port", &server_port.to_string(),
        "--ws-psk", psk,
    ]);
    let client_cli = PenguinCli::try_parse_from([
        "penguin", "client", "--ws-psk", psk, "--keepalive", "0",
        "--max-retry-count", "3", "--max-retry-interval", "100",
        &format!("ws://127.0.0.1:{server_port}/ws"),
        &format!("127.0.0.1:{local_port}:127.0.0.1:{target_port}"),
    ]);
    let (Ok(server_cli), Ok(client_cli)) = (server_cli, client_cli) else {
        eprintln!("PSK {psk:?} refused by the command line");
        return true;
    };
    let server_cli: &'static PenguinCli = Box::leak(Box::new(server_cli));
    let client_cli: &'static PenguinCli = Box::leak(Box::new(client_cli));
    let (Commands::Server(server_args), Commands::Client(client_args)) =
        (&server_cli.subcommand, &client_cli.subcommand)
    else {
        unreachable!()
    };

    let server_task = tokio::spawn(server_main(server_args));
    tokio::time::sleep(Duration::from_millis(300)).await;
    let (hr, stream_command_rx, datagram_rx) = HandlerResources::create();
    let hr: &'static HandlerResources = Box::leak(Box::new(hr));
    let client_task = tokio::spawn(client_main_inner(client_args, hr, stream_command_rx, datagram_rx));

    let through = async {
        tokio::time::sleep(Duration::from_millis(500)).await;
        let mut sock = TcpStream::connect(("127.0.0.1", local_port)).await.ok()?;
        sock.write_all(b"hello through the tunnel").await.ok()?;
        let (mut out, _) = target.accept().await.ok()?;
        let mut buf = [0u8; 24];
        out.read_exact(&mut buf).await.ok()?;
        Some(buf == *b"hello through the tunnel")
    };
    let ok = matches!(
        tokio::time::timeout(Duration::from_secs(8), through).await,
        Ok(Some(true))
    );
    if client_task.is_finished() {
        eprintln!("client ended with: {:?}", client_task.await);
    } else {
        client_task.abort();
    }
    server_task.abort();
    ok
}

#[tokio::test(flavor = "multi_thread")]
async fn control_plain_psk_opens_the_tunnel() {
    assert!(tunnel_works_with_psk("some secret").await);
}

#[tokio::test(flavor = "multi_thread")]
async fn psk_with_trailing_space_opens_the_tunnel() {
    assert!(
        tunnel_works_with_psk("some-secret ").await,
        "server and client were started with the same, accepted --ws-psk, yet the server never answered 101"
    );
}

#[tokio::test(flavor = "multi_thread")]
async fn psk_with_leading_space_opens_the_tunnel() {
    assert!(
        tunnel_works_with_psk(" some-secret").await,
        "server and client were started with the same, accepted --ws-psk, yet the server never answered 101"
    );
}

/// Server only, no penguin client involved: a hand-written, otherwise perfect upgrade request
/// whose `X-Penguin-PSK` field carries the configured key byte for byte.
#[tokio::test(flavor = "multi_thread")]
async fn raw_request_carrying_the_configured_psk_gets_101() {
    use clap::Parser;
    rusty_penguin_lib::tls::init_crypto_provider();
    let psk = "some-secret ";
    let server_port = free_port().await;
    let Ok(server_cli) = PenguinCli::try_parse_from([
        "penguin", "server", "--host", "127.0.0.1", "--port", &server_port.to_string(),
        "--ws-psk", psk,
    ]) else {
        return; // refused by the command line: fine
    };
    let server_cli: &'static PenguinCli = Box::leak(Box::new(server_cli));
    let Commands::Server(server_args) = &server_cli.subcommand else {
        unreachable!()
    };
    let server_task = tokio::spawn(server_main(server_args));
    tokio::time::sleep(Duration::from_millis(300)).await;
    let mut sock = TcpStream::connect(("127.0.0.1", server_port)).await.unwrap();
    let req = format!(
        "GET /ws HTTP/1.1\r\nHost: localhost\r\nConnection: Upgrade\r\nUpgrade: websocket\r\n\
         Sec-WebSocket-Version: 13\r\nSec-WebSocket-Protocol: penguin-v7\r\n\
         Sec-WebSocket-Key: dGhlIHNhbXBsZSBub25jZQ==\r\nX-Penguin-PSK: {psk}\r\n\r\n"
    );
    sock.write_all(req.as_bytes()).await.unwrap();
    let mut buf = [0u8; 12];
    tokio::time::timeout(Duration::from_secs(5), sock.read_exact(&mut buf))
        .await
        .unwrap()
        .unwrap();
    server_task.abort();
    assert_eq!(
        std::str::from_utf8(&buf).unwrap(),
        "HTTP/1.1 101",
        "the request carries the configured PSK and every other required header"
    );
}
