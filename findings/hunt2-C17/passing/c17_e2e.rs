//! C17 exploration: the same questions asked of the glue (`server_main`,
//! `client_main_inner`) rather than of the library. Expected to PASS.

use rcgen::{
    BasicConstraints, CertificateParams, CertifiedIssuer, DnType, ExtendedKeyUsagePurpose, IsCa,
    KeyPair, KeyUsagePurpose,
};
use rusty_penguin_lib::arg::{ClientArgs, Remote, ServerArgs, ServerUrl};
use rusty_penguin_lib::client::{HandlerResources, client_main_inner};
use rusty_penguin_lib::tls::init_crypto_provider;
use std::path::Path;
use std::str::FromStr;
use std::time::Duration;
use tokio::io::{AsyncReadExt, AsyncWriteExt};
use tokio::net::{TcpListener, TcpStream};

fn make_ca(cn: &str) -> CertifiedIssuer<'static, KeyPair> {
    let mut params = CertificateParams::new(Vec::<String>::new()).unwrap();
    params.distinguished_name.push(DnType::CommonName, cn);
    params.is_ca = IsCa::Ca(BasicConstraints::Unconstrained);
    params.key_usages = vec![KeyUsagePurpose::KeyCertSign, KeyUsagePurpose::CrlSign];
    CertifiedIssuer::self_signed(params, KeyPair::generate().unwrap()).unwrap()
}

fn leaf(
    ca: &CertifiedIssuer<'static, KeyPair>,
    cn: &str,
    sans: &[&str],
    client: bool,
) -> (String, String) {
    let mut params =
        CertificateParams::new(sans.iter().map(|s| (*s).to_string()).collect::<Vec<_>>()).unwrap();
    params.distinguished_name.push(DnType::CommonName, cn);
    params.extended_key_usages = vec![if client {
        ExtendedKeyUsagePurpose::ClientAuth
    } else {
        ExtendedKeyUsagePurpose::ServerAuth
    }];
    let key = KeyPair::generate().unwrap();
    let cert = params.signed_by(&key, ca).unwrap();
    (cert.pem(), key.serialize_pem())
}

fn write(dir: &Path, name: &str, content: &str) -> String {
    let p = dir.join(name);
    std::fs::write(&p, content).unwrap();
    p.to_str().unwrap().to_string()
}

/// Runs one client against the server; true iff a byte went through the tunnel and back.
async fn tunnel_works(client_args: ClientArgs, local_port: u16) -> bool {
    let args: &'static ClientArgs = Box::leak(Box::new(client_args));
    let (hr, rx1, rx2) = HandlerResources::create();
    let hr: &'static HandlerResources = Box::leak(Box::new(hr));
    let client = tokio::spawn(client_main_inner(args, hr, rx1, rx2));
    let probe = async {
        for _ in 0..30 {
            tokio::time::sleep(Duration::from_millis(100)).await;
            let Ok(mut s) = TcpStream::connect(("127.0.0.1", local_port)).await else {
                continue;
            };
            if s.write_all(b"x").await.is_err() {
                continue;
            }
            let mut b = [0u8; 1];
            match tokio::time::timeout(Duration::from_millis(1500), s.read_exact(&mut b)).await {
                Ok(Ok(_)) if b[0] == b'x' => return true,
                _ => {}
            }
            if client.is_finished() {
                return false;
            }
        }
        false
    };
    let r = probe.await;
    client.abort();
    let _ = client.await;
    // let the listener port go
    tokio::time::sleep(Duration::from_millis(100)).await;
    r
}

#[tokio::test(flavor = "multi_thread", worker_threads = 4)]
async fn glue_matrix() {
    init_crypto_provider();
    let tmp = tempfile::tempdir().unwrap();
    let d = tmp.path();
    let server_ca = make_ca("server CA");
    let other_ca = make_ca("other CA");
    let client_ca = make_ca("client CA");
    let server_ca_pem = write(d, "server_ca.pem", &server_ca.pem());
    let other_ca_pem = write(d, "other_ca.pem", &other_ca.pem());
    let client_ca_pem = write(d, "client_ca.pem", &client_ca.pem());
    let (c, k) = leaf(&server_ca, "server", &["server.test"], false);
    let (scert, skey) = (write(d, "s.crt", &c), write(d, "s.key", &k));
    let (c, k) = leaf(&client_ca, "good", &[], true);
    let good = (write(d, "g.crt", &c), write(d, "g.key", &k));
    let (c, k) = leaf(&other_ca, "bad", &[], true);
    let bad = (write(d, "b.crt", &c), write(d, "b.key", &k));

    // echo target
    let echo = TcpListener::bind("127.0.0.1:0").await.unwrap();
    let echo_port = echo.local_addr().unwrap().port();
    tokio::spawn(async move {
        loop {
            let (mut s, _) = echo.accept().await.unwrap();
            tokio::spawn(async move {
                let (mut r, mut w) = s.split();
                let _ = tokio::io::copy(&mut r, &mut w).await;
            });
        }
    });

    // two servers: with and without client CA
    let mut n = 0;
    for (sport, with_ca) in [(28441u16, true), (28442u16, false)] {
        let sargs: &'static ServerArgs = Box::leak(Box::new(ServerArgs {
            host: vec!["127.0.0.1".into()],
            port: vec![sport],
            tls_cert: Some(scert.clone()),
            tls_key: Some(skey.clone()),
            tls_ca: with_ca.then(|| client_ca_pem.clone()),
            ..Default::default()
        }));
        let server = tokio::spawn(rusty_penguin_lib::server::server_main(sargs));
        tokio::time::sleep(Duration::from_millis(500)).await;

        let lport = 28450u16;
        for (ca, ca_ok) in [(&server_ca_pem, true), (&other_ca_pem, false)] {
            for (sni, name_ok) in [(Some("server.test"), true), (None, false), (Some("x.test"), false)] {
                for skip in [false, true] {
                    for (ccert, cgood) in [(None, false), (Some(&good), true), (Some(&bad), false)] {
                        let cargs = ClientArgs {
                            server: ServerUrl::from_str(&format!("wss://127.0.0.1:{sport}/ws")).unwrap(),
                            remote: vec![Remote::from_str(&format!(
                                "127.0.0.1:{lport}:127.0.0.1:{echo_port}"
                            ))
                            .unwrap()],
                            max_retry_count: 2,
                            max_retry_interval: 200,
                            tls_ca: Some(ca.clone()),
                            tls_server_name: sni.map(str::to_string),
                            tls_skip_verify: skip,
                            tls_cert: ccert.map(|c| c.0.clone()),
                            tls_key: ccert.map(|c| c.1.clone()),
                            ..Default::default()
                        };
                        let want = (skip || (ca_ok && name_ok)) && (!with_ca || cgood);
                        let got = tunnel_works(cargs, lport).await;
                        assert_eq!(
                            got, want,
                            "server client-CA {with_ca}, client roots ok {ca_ok}, sni {sni:?}, skip {skip}, client cert good {cgood} / present {}",
                            ccert.is_some()
                        );
                        n += 1;
                    }
                }
            }
        }
        server.abort();
    }
    eprintln!("{n} end-to-end cells checked");
}
