use bytes::Bytes;
use penguin_mux::{Datagram, Multiplexor, config::Options};
use tokio::io::{AsyncReadExt, AsyncWriteExt};
use tokio_tungstenite::{WebSocketStream, tungstenite::protocol::Role};

async fn pair(
    mss: usize,
) -> (
    WebSocketStream<tokio::io::DuplexStream>,
    WebSocketStream<tokio::io::DuplexStream>,
) {
    let (c, s) = tokio::io::duplex(mss);
    (
        WebSocketStream::from_raw_socket(c, Role::Client, None).await,
        WebSocketStream::from_raw_socket(s, Role::Server, None).await,
    )
}

#[tokio::test(flavor = "multi_thread", worker_threads = 2)]
async fn domain() {
    for mss in [8usize, 2048, 1 << 20] {
        let (c, s) = pair(mss).await;
        let a = Multiplexor::new_with_opt(c, Options::new().datagram_buffer_size(4096), None);
        let b = Multiplexor::new_with_opt(s, Options::new().datagram_buffer_size(4096), None);
        let mut sent = Vec::new();
        for hl in [0usize, 1, 11, 254, 255] {
            for pl in [0usize, 1, 2, 3, 4, 5, 1000, 65535, 65536] {
                for id in [0u32, 1, 0x8000_0000, u32::MAX] {
                    for port in [0u16, 53, 65535] {
                        if mss == 8 && pl > 1000 {
                            continue;
                        }
                        let d = Datagram {
                            flow_id: id,
                            target_host: Bytes::from(vec![(hl % 251) as u8; hl]),
                            target_port: port,
                            data: Bytes::from(vec![(pl % 253) as u8; pl]),
                        };
                        sent.push(d.clone());
                        a.send_datagram(d).await.unwrap();
                        if sent.len() % 100 == 0 {
                            // drain
                            for e in sent.drain(..) {
                                let g = b.get_datagram().await.unwrap();
                                assert_eq!(g.flow_id, e.flow_id);
                                assert_eq!(g.target_host, e.target_host);
                                assert_eq!(g.target_port, e.target_port);
                                assert_eq!(g.data, e.data);
                            }
                        }
                    }
                }
            }
        }
        for e in sent.drain(..) {
            let g = b.get_datagram().await.unwrap();
            assert_eq!(g.flow_id, e.flow_id);
            assert_eq!(g.target_host, e.target_host);
            assert_eq!(g.target_port, e.target_port);
            assert_eq!(g.data, e.data);
        }
        // too long
        for hl in [256usize, 257, 300] {
            let r = a
                .send_datagram(Datagram {
                    flow_id: 1,
                    target_host: Bytes::from(vec![1u8; hl]),
                    target_port: 1,
                    data: Bytes::new(),
                })
                .await;
            assert!(matches!(r, Err(penguin_mux::Error::DatagramHostTooLong)));
        }
        a.send_datagram(Datagram {
            flow_id: 7,
            target_host: Bytes::new(),
            target_port: 1,
            data: Bytes::new(),
        })
        .await
        .unwrap();
        let g = b.get_datagram().await.unwrap();
        assert_eq!(g.flow_id, 7);
    }
}

#[tokio::test(flavor = "multi_thread", worker_threads = 2)]
async fn burst_and_stream() {
    for n in [1usize, 2, 7, 64] {
        for extra in [0usize, 1, 5, 300] {
            let (c, s) = pair(2048).await;
            let a = Multiplexor::new_with_opt(c, Options::new(), None);
            let b = Multiplexor::new_with_opt(s, Options::new().datagram_buffer_size(n), None);
            let (mut sa, mut sb) = tokio::join!(
                async { a.new_stream_channel(b"x", 1).await.unwrap() },
                async { b.accept_stream_channel().await.unwrap() }
            );
            let k = n + extra;
            for i in 0..k {
                a.send_datagram(Datagram {
                    flow_id: i as u32,
                    target_host: Bytes::from_static(b"h"),
                    target_port: 9,
                    data: Bytes::from(vec![i as u8; i % 5]),
                })
                .await
                .unwrap();
                if i % 3 == 0 {
                    sa.write_all(&[i as u8; 10]).await.unwrap();
                    let mut buf = [0u8; 10];
                    sb.read_exact(&mut buf).await.unwrap();
                    assert_eq!(buf, [i as u8; 10]);
                    sb.write_all(&buf).await.unwrap();
                    sa.read_exact(&mut buf).await.unwrap();
                }
            }
            // marker through the stream: everything before it has been processed
            sa.write_all(b"done").await.unwrap();
            let mut buf = [0u8; 4];
            sb.read_exact(&mut buf).await.unwrap();
            for i in 0..n {
                let g = b.get_datagram().await.unwrap();
                assert_eq!(g.flow_id, i as u32, "n={n} extra={extra}");
                assert_eq!(g.data.len(), i % 5);
            }
            let r = tokio::time::timeout(std::time::Duration::from_millis(50), b.get_datagram()).await;
            assert!(r.is_err(), "n={n} extra={extra} got {r:?}");
            // stream still alive
            sb.write_all(b"okay").await.unwrap();
            sa.read_exact(&mut buf).await.unwrap();
            assert_eq!(&buf, b"okay");
        }
    }
}
