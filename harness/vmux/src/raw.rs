//! A scripted raw peer: speaks frames directly on one side of the in-memory link.

use crate::codec::{self, RFrame};
use crate::link::{Item, Link};
use bytes::Bytes;
use penguin_mux::ws::Message;

#[derive(Clone, Debug, PartialEq, Eq, Hash)]
pub enum RMsg {
    Frame(RFrame),
    Close,
    Ping,
    Pong,
    Undecodable(Vec<u8>),
    Eof,
}

pub struct Raw {
    /// the side the raw peer plays
    pub side: usize,
    pub link: Link,
    /// everything received so far, in order
    pub got: Vec<RMsg>,
}

impl Raw {
    pub fn new(side: usize, link: Link) -> Self {
        Self { side, link, got: Vec::new() }
    }

    pub fn send(&self, f: &RFrame) {
        self.link.inject(self.side, Message::Binary(Bytes::from(codec::encode(f))));
    }

    pub fn send_bytes(&self, b: &[u8]) {
        self.link.inject(self.side, Message::Binary(Bytes::copy_from_slice(b)));
    }

    pub fn send_msg(&self, m: Message) {
        self.link.inject(self.side, m);
    }

    /// Take what has been delivered to the raw peer since the last call.
    pub fn pump(&mut self) -> Vec<RMsg> {
        let items = self.link.raw_take(1 - self.side);
        let mut new = Vec::new();
        for it in items {
            let m = match it {
                Item::Eof => RMsg::Eof,
                Item::Msg(Message::Close) => RMsg::Close,
                Item::Msg(Message::Ping) => RMsg::Ping,
                Item::Msg(Message::Pong) => RMsg::Pong,
                Item::Msg(Message::Binary(b)) => match codec::decode(&b) {
                    Ok(f) => RMsg::Frame(f),
                    Err(_) => RMsg::Undecodable(b.to_vec()),
                },
            };
            new.push(m);
        }
        self.got.extend(new.iter().cloned());
        new
    }

    pub fn frames(&self) -> impl Iterator<Item = &RFrame> {
        self.got.iter().filter_map(|m| if let RMsg::Frame(f) = m { Some(f) } else { None })
    }
}
