//! C06 demo: after BOTH applications have finished and dropped a stream, its flow id
//! is not usable for a new stream.
//!
//! 1. (`..._by_the_peer`) The endpoint that dropped first answers the peer's (perfectly
//!    regular) `Finish` with a `Reset`, and that `Reset` of the OLD flow kills the NEW
//!    flow that re-uses the id. The other application is handed a phantom stream.
//! 2. (`..._by_the_first_dropper`) The peer's `Finish` of the OLD flow, still in flight,
//!    meets the `Connect` of the NEW flow with the same id: `new_stream_channel` fails
//!    with `Error::Closed` ("mux is already closed") although the multiplexor is alive
//!    (the `penguin` client tears the whole connection down on that error).
//!
//! Only the public API is used. The two endpoints are real `Multiplexor`s; the
//! "wire" between them is delivered by hand so that the schedule is deterministic.
//
// SPDX-License-Identifier: Apache-2.0 OR GPL-3.0-or-later

use penguin_mux::config::Options;
use penguin_mux::frame::Frame;
use penguin_mux::ws::{Message, WebSocket};
use penguin_mux::{Error, Multiplexor};
use std::collections::VecDeque;
use std::convert::Infallible;
use std::sync::{Arc, Mutex};
use std::task::{Context, Poll};
use std::time::Duration;
use tokio::io::{AsyncReadExt, AsyncWriteExt};
use tokio::sync::mpsc;

/// One end of a hand-pumped link: what the endpoint sends is parked in `outbox`
/// ("in flight") until the test moves it to the other end's `inbox`.
struct ManualWs {
    outbox: Option<Arc<Mutex<VecDeque<Message>>>>,
    inbox: mpsc::UnboundedReceiver<Message>,
}

impl WebSocket for ManualWs {
    fn poll_ready_unpin(&mut self, _cx: &mut Context<'_>) -> Poll<Result<(), Error>> {
        Poll::Ready(self.outbox.as_ref().map(|_| ()).ok_or(Error::Closed))
    }
    fn start_send_unpin(&mut self, item: Message) -> Result<(), Error> {
        self.outbox
            .as_ref()
            .ok_or(Error::Closed)?
            .lock()
            .unwrap()
            .push_back(item);
        Ok(())
    }
    fn poll_flush_unpin(&mut self, _cx: &mut Context<'_>) -> Poll<Result<(), Error>> {
        Poll::Ready(Ok(()))
    }
    fn poll_close_unpin(&mut self, _cx: &mut Context<'_>) -> Poll<Result<(), Error>> {
        self.outbox.take();
        Poll::Ready(Ok(()))
    }
    fn poll_next_unpin(&mut self, cx: &mut Context<'_>) -> Poll<Option<Result<Message, Error>>> {
        self.inbox.poll_recv(cx).map(|m| m.map(Ok))
    }
}

/// The test's handle on one direction of the link
struct Direction {
    name: &'static str,
    in_flight: Arc<Mutex<VecDeque<Message>>>,
    deliver_to: mpsc::UnboundedSender<Message>,
}

impl Direction {
    /// Deliver everything that is in flight in this direction. Returns the number of frames.
    fn deliver(&self) -> usize {
        let msgs: Vec<Message> = self.in_flight.lock().unwrap().drain(..).collect();
        let n = msgs.len();
        for m in msgs {
            if let Message::Binary(b) = &m {
                println!("  {}: {:?}", self.name, Frame::try_from(b.clone()).unwrap());
            }
            self.deliver_to.send(m).ok();
        }
        n
    }
}

fn link() -> (ManualWs, ManualWs, Direction, Direction) {
    let a_out = Arc::new(Mutex::new(VecDeque::new()));
    let b_out = Arc::new(Mutex::new(VecDeque::new()));
    let (to_a, a_in) = mpsc::unbounded_channel();
    let (to_b, b_in) = mpsc::unbounded_channel();
    let a = ManualWs {
        outbox: Some(a_out.clone()),
        inbox: a_in,
    };
    let b = ManualWs {
        outbox: Some(b_out.clone()),
        inbox: b_in,
    };
    let a2b = Direction {
        name: "A->B",
        in_flight: a_out,
        deliver_to: to_b,
    };
    let b2a = Direction {
        name: "B->A",
        in_flight: b_out,
        deliver_to: to_a,
    };
    (a, b, a2b, b2a)
}

/// Flow ids 5, 6, 7, ... (a scripted `Rng`, as allowed by `Multiplexor::new_detailed`)
struct SeqRng(u32);
impl rand::TryRng for SeqRng {
    type Error = Infallible;
    fn try_next_u32(&mut self) -> Result<u32, Infallible> {
        self.0 += 1;
        Ok(self.0)
    }
    fn try_next_u64(&mut self) -> Result<u64, Infallible> {
        self.0 += 1;
        Ok(u64::from(self.0))
    }
    fn try_fill_bytes(&mut self, dst: &mut [u8]) -> Result<(), Infallible> {
        dst.fill(0);
        Ok(())
    }
}

/// Flow ids from a list
struct ListRng(VecDeque<u32>);
impl rand::TryRng for ListRng {
    type Error = Infallible;
    fn try_next_u32(&mut self) -> Result<u32, Infallible> {
        Ok(self.0.pop_front().expect("script exhausted"))
    }
    fn try_next_u64(&mut self) -> Result<u64, Infallible> {
        self.try_next_u32().map(u64::from)
    }
    fn try_fill_bytes(&mut self, dst: &mut [u8]) -> Result<(), Infallible> {
        dst.fill(0);
        Ok(())
    }
}

/// Let every spawned task (the two multiplexor tasks, pending opens) run until idle.
/// The test runs on a current-thread runtime, so this is deterministic.
async fn settle() {
    for _ in 0..64 {
        tokio::task::yield_now().await;
    }
}

/// Deliver in both directions until nothing is in flight any more
async fn pump(a2b: &Direction, b2a: &Direction) {
    loop {
        settle().await;
        let n = a2b.deliver() + b2a.deliver();
        if n == 0 {
            break;
        }
    }
}

#[tokio::test]
async fn flow_id_is_reusable_by_the_peer_after_both_ends_finished_and_dropped() {
    let (a_ws, b_ws, a2b, b2a) = link();
    let (mux_a, task_a) = Multiplexor::new_detailed::<_, std::time::Instant>(
        a_ws,
        Options::new(),
        SeqRng(4),
    );
    let (mux_b, task_b) = Multiplexor::new_detailed::<_, std::time::Instant>(
        b_ws,
        Options::new(),
        SeqRng(4),
    );
    task_a.spawn(None);
    task_b.spawn(None);
    let mux_a = Arc::new(mux_a);
    let mux_b = Arc::new(mux_b);

    println!("-- A opens the first stream (flow id 5)");
    let opener = {
        let mux_a = mux_a.clone();
        tokio::spawn(async move { mux_a.new_stream_channel(b"first", 1).await })
    };
    pump(&a2b, &b2a).await;
    let mut a1 = opener.await.unwrap().unwrap();
    let mut b1 = mux_b.accept_stream_channel().await.unwrap();
    assert_eq!(b1.dest_port, 1);

    println!("-- A writes, finishes and drops its end (fire and forget)");
    a1.write_all(b"ping").await.unwrap();
    a1.shutdown().await.unwrap();
    drop(a1);
    pump(&a2b, &b2a).await;

    println!("-- B reads to end-of-stream, finishes and drops its end");
    let mut got = Vec::new();
    b1.read_to_end(&mut got).await.unwrap();
    assert_eq!(got, b"ping");
    b1.shutdown().await.unwrap();
    drop(b1);
    settle().await;
    // From here on NEITHER application holds the stream: both finished, both dropped.

    println!("-- B's `Finish` reaches A");
    b2a.deliver();
    settle().await;

    println!("-- B opens a new stream; its generator yields the id that was just released (5)");
    let opener = {
        let mux_b = mux_b.clone();
        tokio::spawn(async move { mux_b.new_stream_channel(b"second", 2).await })
    };
    pump(&a2b, &b2a).await;
    let mut b2 = tokio::time::timeout(Duration::from_secs(2), opener)
        .await
        .expect("the open did not complete")
        .unwrap()
        .expect("the new stream could not be opened");
    println!("B's new stream: {b2:?}");

    // A's application accepts the stream B asked for...
    let mut a2 = tokio::time::timeout(Duration::from_secs(2), mux_a.accept_stream_channel())
        .await
        .expect("A never saw the new stream")
        .unwrap();
    println!("A accepted:     {a2:?}");
    assert_eq!(a2.dest_port, 2);

    // ...and it must be B's stream: what B writes arrives there.
    b2.write_all(b"hello").await.unwrap();
    pump(&a2b, &b2a).await;
    let mut buf = [0u8; 16];
    let n = tokio::time::timeout(Duration::from_secs(2), a2.read(&mut buf))
        .await
        .expect("read on the accepted stream blocked")
        .unwrap();
    assert_eq!(
        std::str::from_utf8(&buf[..n]).unwrap(),
        "hello",
        "the stream A's application accepted is not the stream B opened: it is a phantom, \
         killed by the `Reset` that A sent in answer to the `Finish` of the OLD flow 5"
    );

    // One open on B must give exactly one stream on A.
    pump(&a2b, &b2a).await;
    let extra =
        tokio::time::timeout(Duration::from_millis(200), mux_a.accept_stream_channel()).await;
    assert!(
        extra.is_err(),
        "A's application was handed a second stream for a single open: {extra:?}"
    );
}

#[tokio::test]
async fn flow_id_is_reusable_by_the_first_dropper_after_both_ends_finished_and_dropped() {
    let (a_ws, b_ws, a2b, b2a) = link();
    // A draws 1 (a bystander stream), 5 (the stream under test), then 5 again, then 6
    let (mux_a, task_a) = Multiplexor::new_detailed::<_, std::time::Instant>(
        a_ws,
        Options::new(),
        ListRng(VecDeque::from([1, 5, 5, 6, 7, 8])),
    );
    let (mux_b, task_b) = Multiplexor::new_detailed::<_, std::time::Instant>(
        b_ws,
        Options::new(),
        SeqRng(100),
    );
    task_a.spawn(None);
    task_b.spawn(None);
    let mux_a = Arc::new(mux_a);

    println!("-- a bystander stream (flow id 1) and the stream under test (flow id 5)");
    let opener = {
        let mux_a = mux_a.clone();
        tokio::spawn(async move {
            let c = mux_a.new_stream_channel(b"bystander", 9).await.unwrap();
            let s = mux_a.new_stream_channel(b"first", 1).await.unwrap();
            (c, s)
        })
    };
    pump(&a2b, &b2a).await;
    let (mut a_bystander, mut a1) = opener.await.unwrap();
    let mut b_bystander = mux_b.accept_stream_channel().await.unwrap();
    let mut b1 = mux_b.accept_stream_channel().await.unwrap();
    assert_eq!((b_bystander.dest_port, b1.dest_port), (9, 1));

    println!("-- A finishes and drops its end");
    a1.shutdown().await.unwrap();
    drop(a1);
    pump(&a2b, &b2a).await;

    println!("-- B reads to end-of-stream, finishes and drops its end");
    let mut got = Vec::new();
    b1.read_to_end(&mut got).await.unwrap();
    b1.shutdown().await.unwrap();
    drop(b1);
    settle().await;
    // From here on NEITHER application holds the stream; B's `Finish` is in flight.

    println!("-- A opens a new stream; its generator yields the id that was just released (5)");
    let opener = {
        let mux_a = mux_a.clone();
        tokio::spawn(async move { mux_a.new_stream_channel(b"second", 2).await })
    };
    pump(&a2b, &b2a).await;
    let opened = tokio::time::timeout(Duration::from_secs(2), opener)
        .await
        .expect("the open did not complete")
        .unwrap();
    println!("A's new stream: {opened:?}");

    // The multiplexor is alive and well: the bystander stream still carries data both ways
    a_bystander.write_all(b"still").await.unwrap();
    pump(&a2b, &b2a).await;
    let mut buf = [0u8; 16];
    let n = b_bystander.read(&mut buf).await.unwrap();
    assert_eq!(&buf[..n], b"still");
    b_bystander.write_all(b"alive").await.unwrap();
    pump(&a2b, &b2a).await;
    let n = a_bystander.read(&mut buf).await.unwrap();
    assert_eq!(&buf[..n], b"alive");

    // ...so the open must not have failed, least of all with "mux is already closed"
    let mut a2 = match opened {
        Ok(s) => s,
        Err(e) => panic!(
            "`new_stream_channel` failed with `{e}` ({e:?}) on a live multiplexor: the `Finish` \
             of the OLD flow 5 was taken for the answer to the `Connect` of the NEW flow 5"
        ),
    };
    // and the stream it returned works
    a2.write_all(b"hello").await.unwrap();
    pump(&a2b, &b2a).await;
    let mut found = false;
    while let Ok(Ok(mut s)) =
        tokio::time::timeout(Duration::from_millis(200), mux_b.accept_stream_channel()).await
    {
        let n = tokio::time::timeout(Duration::from_secs(2), s.read(&mut buf))
            .await
            .expect("read blocked")
            .unwrap();
        if &buf[..n] == b"hello" {
            found = true;
        }
    }
    assert!(found, "what A wrote on its new stream never arrived at B");
}
