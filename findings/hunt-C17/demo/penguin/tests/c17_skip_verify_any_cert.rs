//! C17 demo 1: `--tls-skip-verify` ("accepts any TLS certificate presented by the
//! server") does not accept every certificate.
//!
//! A third-party TLS terminator (here: a bare rustls server; think of an old
//! appliance or a reverse proxy in front of penguin) presents a certificate that
//! `webpki` refuses to *parse*: one with an unknown critical extension, and an
//! X.509 v1 certificate. The client is told to skip verification, so the property
//! says the certificate must be accepted. On the unmodified tree the handshake is
//! refused with `invalid peer certificate: UnsupportedCriticalExtension` /
//! `UnsupportedCertVersion`.
#![cfg(all(feature = "tls-rustls", feature = "client"))]
#![allow(clippy::pedantic, clippy::unwrap_used, missing_debug_implementations)]

use rcgen::{CertificateParams, CustomExtension, KeyPair};
use rustls::pki_types::{CertificateDer, PrivateKeyDer};
use rusty_penguin_lib::tls::{init_crypto_provider, tls_connect};
use std::sync::Arc;
use std::time::Duration;
use tokio::io::{AsyncReadExt, AsyncWriteExt};

#[derive(Debug)]
struct FixedCert(Arc<rustls::sign::CertifiedKey>);
impl rustls::server::ResolvesServerCert for FixedCert {
    fn resolve(
        &self,
        _hello: rustls::server::ClientHello<'_>,
    ) -> Option<Arc<rustls::sign::CertifiedKey>> {
        Some(self.0.clone())
    }
}

// ---- a few lines of DER, only used to turn an rcgen certificate into a v1 one ----
/// Split one TLV off the front: (tag, whole TLV, contents, rest)
fn tlv(input: &[u8]) -> (u8, &[u8], &[u8], &[u8]) {
    let tag = input[0];
    let (len, hdr) = if input[1] < 0x80 {
        (usize::from(input[1]), 2)
    } else {
        let n = usize::from(input[1] & 0x7f);
        let len = input[2..2 + n]
            .iter()
            .fold(0usize, |acc, b| (acc << 8) | usize::from(*b));
        (len, 2 + n)
    };
    (
        tag,
        &input[..hdr + len],
        &input[hdr..hdr + len],
        &input[hdr + len..],
    )
}
fn wrap(tag: u8, content: &[u8]) -> Vec<u8> {
    let mut out = vec![tag];
    let len = content.len();
    if len < 0x80 {
        out.push(len as u8);
    } else if len < 0x100 {
        out.extend([0x81, len as u8]);
    } else {
        out.extend([0x82, (len >> 8) as u8, len as u8]);
    }
    out.extend_from_slice(content);
    out
}
/// Drop `[0] version` and `[3] extensions` from the TBSCertificate: what remains is a
/// well-formed X.509 v1 certificate with the same subject and the same public key.
/// (Its issuer signature no longer matches, which nobody looks at when verification
/// is skipped; the TLS handshake signature is made with the real key and is valid.)
fn to_x509_v1(cert: &[u8]) -> Vec<u8> {
    let (_, _, cert_body, _) = tlv(cert);
    let (_, _, tbs, after_tbs) = tlv(cert_body);
    let mut new_tbs = Vec::new();
    let mut rest = tbs;
    while !rest.is_empty() {
        let (tag, whole, _, r) = tlv(rest);
        if tag != 0xA0 && tag != 0xA3 {
            new_tbs.extend_from_slice(whole);
        }
        rest = r;
    }
    let mut body = wrap(0x30, &new_tbs);
    body.extend_from_slice(after_tbs);
    wrap(0x30, &body)
}

/// One handshake over an in-memory pipe, client told to skip verification.
async fn skip_verify_handshake(cert_der: Vec<u8>, key: &KeyPair) -> Result<(), String> {
    let provider = rustls::crypto::CryptoProvider::get_default()
        .unwrap()
        .clone();
    let key_der = PrivateKeyDer::try_from(key.serialize_der()).unwrap();
    let signing_key = provider.key_provider.load_private_key(key_der).unwrap();
    let certified = rustls::sign::CertifiedKey::new(
        vec![CertificateDer::from(cert_der)],
        signing_key,
    );
    let cfg = rustls::ServerConfig::builder_with_provider(provider)
        .with_safe_default_protocol_versions()
        .unwrap()
        .with_no_client_auth()
        .with_cert_resolver(Arc::new(FixedCert(Arc::new(certified))));
    let (c_io, s_io) = tokio::io::duplex(1 << 16);
    let server = tokio::spawn(async move {
        let mut s = tokio_rustls::TlsAcceptor::from(Arc::new(cfg))
            .accept(s_io)
            .await?;
        s.write_all(b"S").await?;
        s.flush().await?;
        let mut b = [0u8; 1];
        s.read_exact(&mut b).await?;
        Ok::<(), std::io::Error>(())
    });
    let client = async {
        //                                   cert  key   ca    skip-verify
        let mut c = tls_connect(c_io, "server.test", None, None, None, true)
            .await
            .map_err(|e| format!("client: {e}"))?;
        let mut b = [0u8; 1];
        c.read_exact(&mut b).await.map_err(|e| format!("client: {e}"))?;
        c.write_all(b"C").await.map_err(|e| format!("client: {e}"))?;
        c.flush().await.map_err(|e| format!("client: {e}"))?;
        Ok::<(), String>(())
    };
    let c_res = tokio::time::timeout(Duration::from_secs(10), client)
        .await
        .unwrap_or_else(|_| Err("client timed out".into()));
    let s_res = tokio::time::timeout(Duration::from_secs(10), server)
        .await
        .map(|r| r.unwrap().map_err(|e| format!("server: {e}")))
        .unwrap_or_else(|_| Err("server timed out".into()));
    c_res.and(s_res)
}

fn params() -> CertificateParams {
    CertificateParams::new(vec!["server.test".to_string()]).unwrap()
}

/// Control: the harness works, an ordinary self-signed certificate is accepted.
#[tokio::test]
async fn skip_verify_accepts_plain_self_signed() {
    init_crypto_provider();
    let key = KeyPair::generate().unwrap();
    let cert = params().self_signed(&key).unwrap();
    skip_verify_handshake(cert.der().to_vec(), &key)
        .await
        .expect("skip-verify must accept any certificate");
}

#[tokio::test]
async fn skip_verify_accepts_unknown_critical_extension() {
    init_crypto_provider();
    let key = KeyPair::generate().unwrap();
    let mut p = params();
    // Some private, critical extension (correctly signed certificate)
    let mut ext = CustomExtension::from_oid_content(&[1, 3, 6, 1, 4, 1, 99999, 1], vec![5, 0]);
    ext.set_criticality(true);
    p.custom_extensions.push(ext);
    let cert = p.self_signed(&key).unwrap();
    skip_verify_handshake(cert.der().to_vec(), &key)
        .await
        .expect("skip-verify must accept any certificate");
}

#[tokio::test]
async fn skip_verify_accepts_x509_v1() {
    init_crypto_provider();
    let key = KeyPair::generate().unwrap();
    let cert = params().self_signed(&key).unwrap();
    skip_verify_handshake(to_x509_v1(cert.der()), &key)
        .await
        .expect("skip-verify must accept any certificate");
}

/// Control (for the proposed fix): skipping verification of the certificate does not
/// mean skipping proof of possession of its key.
#[tokio::test]
async fn skip_verify_still_wants_the_matching_key() {
    init_crypto_provider();
    let key = KeyPair::generate().unwrap();
    let other_key = KeyPair::generate().unwrap();
    let cert = params().self_signed(&key).unwrap();
    skip_verify_handshake(cert.der().to_vec(), &other_key)
        .await
        .unwrap_err();
    skip_verify_handshake(to_x509_v1(cert.der()), &other_key)
        .await
        .unwrap_err();
}
