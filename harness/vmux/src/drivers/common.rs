//! Shared runner of the psim drivers: a list of cases (one scenario
//! configuration each) is explored with iterative deviation bounding; results
//! are folded into the report.

use crate::Args;
use crate::explore::{self, Budget, RunOutput, with_prefix};
use crate::report::Report;
use serde_json::{Value, json};
use std::sync::Mutex;
use std::time::{Duration, Instant};

pub struct Case {
    pub label: String,
    pub exec: Box<dyn Fn(bool) -> RunOutput + Sync + Send>,
    /// small enough to attempt the complete interleaving tree (unbounded deviations) after the bounded levels
    pub try_unbounded: bool,
    /// large single-schedule scenarios: do not go beyond this scheduling bound for this case
    pub max_k: u32,
}

pub struct Plan {
    /// scheduling-deviation bounds to try, ascending (u32::MAX = unbounded)
    pub ks: Vec<u32>,
    pub env: u32,
    pub fault: u32,
    pub total_wall: Duration,
    pub max_execs_per_case: u64,
    /// witness bits that must have been observed somewhere in the run (vacuity guard)
    pub required_witnesses: u64,
    pub witness_names: &'static [(&'static str, u64)],
    /// skip a level when its predicted cost exceeds the wall budget (thorough tier). The quick tier runs
    /// exactly the listed levels so that the work it reports does not depend on machine load; its wall
    /// cap is only an emergency brake.
    pub adaptive: bool,
}

fn set_hash(s: &std::collections::HashSet<u64>) -> String {
    let mut v: Vec<u64> = s.iter().copied().collect();
    v.sort_unstable();
    let mut h = crate::sim::Fnv::default();
    for x in v {
        h.u64(x);
    }
    format!("{:016x}", h.0)
}

fn bound_str(k: Option<u32>) -> String {
    match k {
        None => "none".into(),
        Some(Budget::UNBOUNDED) => "unbounded".into(),
        Some(k) => k.to_string(),
    }
}

/// Re-run one recorded case twice and compare (replay mode).
fn replay(rep: &mut Report, cases: &[Case], rj: &Value) {
    let label = rj.get("case").and_then(Value::as_str).unwrap_or("");
    let choices: Vec<u16> = rj
        .get("choices")
        .and_then(Value::as_array)
        .map(|a| a.iter().filter_map(|x| x.as_u64().map(|x| x as u16)).collect())
        .unwrap_or_default();
    let Some(case) = cases.iter().find(|c| c.label == label) else {
        rep.machinery_error = Some(format!("replay: case '{label}' is not in this tier's case list (try --tier thorough)"));
        return;
    };
    vcommon::watchdog::enter(label, &choices);
    let (o1, t1) = with_prefix(&choices, || (case.exec)(true));
    vcommon::watchdog::leave();
    vcommon::watchdog::enter(label, &choices);
    let (o2, t2) = with_prefix(&choices, || (case.exec)(true));
    vcommon::watchdog::leave();
    let same = o1.outcome == o2.outcome && o1.fingerprints == o2.fingerprints && t1.len() == t2.len() && o1.violations == o2.violations;
    if !same {
        rep.machinery_error = Some("replay: two runs of the same schedule differ (nondeterminism not owned)".into());
        return;
    }
    println!("REPLAY case: {label}");
    println!("REPLAY schedule: {}", o1.rendering.clone().unwrap_or_default());
    for (k, d) in &o1.violations {
        println!("REPLAY violation {k}: {d}");
        rep.violation(k.clone(), format!("[{label}] {d}"), rj.clone());
    }
    rep.evaluations = 2;
    rep.distinct_nontrivial = 2;
    rep.states = o1.fingerprints.len() as u64;
    rep.transitions = o1.steps;
    rep.sample(json!({"case": label, "schedule": o1.rendering}));
}

pub fn run_cases(args: &Args, rep: &mut Report, cases: Vec<Case>, plan: &Plan) {
    if let Some(rj) = args.replay_json() {
        replay(rep, &cases, &rj);
        return;
    }
    // debugging aid: VERIF_CASE_FILTER=<substring> restricts the run to matching cases, VERIF_WALL=<seconds> overrides the wall cap
    let cases: Vec<Case> = match std::env::var("VERIF_CASE_FILTER") {
        Ok(f) if !f.is_empty() => cases.into_iter().filter(|c| c.label.contains(&f)).collect(),
        _ => cases,
    };
    let start = Instant::now();
    let wall = std::env::var("VERIF_WALL").ok().and_then(|s| s.parse::<u64>().ok()).map_or(plan.total_wall, Duration::from_secs);
    let deadline = start + wall;
    let threads = args.threads.max(1);
    // Level by level over ALL cases: every case is explored with bound k before any case gets k+1,
    // so the bound reported as completed is uniform and the wall budget goes to the deepest level.
    struct St {
        best: Option<(u32, explore::Stats)>,
        levels: Vec<(u32, u64, f64)>,
        last: Option<(u64, f64)>,
        prev: Option<(u64, f64)>,
        done: bool,
        note: Option<String>,
        extra_violations: Vec<explore::FoundViolation>,
        partial: Option<explore::Stats>,
    }
    let states: Vec<Mutex<St>> = cases.iter().map(|_| Mutex::new(St { best: None, levels: Vec::new(), last: None, prev: None, done: false, note: None, extra_violations: Vec::new(), partial: None })).collect();
    for (li, &k) in plan.ks.iter().enumerate() {
        let pending: Vec<usize> = (0..cases.len()).filter(|i| !states[*i].lock().unwrap().done && k <= cases[*i].max_k).collect();
        if pending.is_empty() || (li > 0 && Instant::now() >= deadline) {
            break;
        }
        let across = pending.len() >= threads;
        let next = std::sync::atomic::AtomicUsize::new(0);
        // predicted total cost of this level (single-thread seconds), to decide whether it fits at all
        let predicted: f64 = pending
            .iter()
            .map(|i| {
                let st = states[*i].lock().unwrap();
                match (st.last, st.prev) {
                    (Some((e1, t1)), Some((e0, _))) => t1 * (e1 as f64 / e0.max(1) as f64).max(2.0),
                    (Some((_, t1)), None) => t1 * 20.0,
                    _ => 0.01,
                }
            })
            .sum();
        let left = deadline.saturating_duration_since(Instant::now()).as_secs_f64();
        if plan.adaptive && li > 0 && predicted / (threads as f64) > left * 1.2 {
            for i in &pending {
                let mut st = states[*i].lock().unwrap();
                if st.note.is_none() {
                    st.note = Some(format!("level k={} not attempted: predicted {:.0} s of work for {} cases with {:.0} s left", bound_str(Some(k)), predicted / threads as f64, pending.len(), left));
                }
            }
            break;
        }
        let run_one = |i: usize, inner: usize| {
            let c = &cases[i];
            let t0 = Instant::now();
            let stx = explore::explore(
                Budget::new(k, plan.env, plan.fault),
                // the first level always runs to completion, whatever the wall cap says: a verdict on the
                // canonical schedules (and the fault positions along them) must not depend on machine load
                explore::Limits { max_execs: plan.max_execs_per_case, deadline: if li == 0 { start + Duration::from_secs(3600) } else { deadline }, threads: inner, stop_after_violation_kinds: 0 },
                &c.label,
                || (c.exec)(false),
            );
            let dt = t0.elapsed().as_secs_f64();
            let mut st = states[i].lock().unwrap();
            st.levels.push((k, stx.executions, dt));
            if let Some(cap) = &stx.capped {
                st.note = Some(format!("level k={} aborted after {} executions: {cap}", bound_str(Some(k)), stx.executions));
                st.done = true;
                // executions of an incomplete level are still real executions of the real code: their
                // violations, states and counts are kept; the bound reported as completed stays at k-1
                st.extra_violations.extend(stx.violations.iter().cloned());
                st.partial = Some(stx);
                return;
            }
            st.prev = st.last;
            st.last = Some((stx.executions, dt));
            let same = st.best.as_ref().is_some_and(|(_, b)| b.executions == stx.executions);
            st.best = Some((if same { Budget::UNBOUNDED } else { k }, stx));
            if same || k == Budget::UNBOUNDED {
                st.done = true; // the tree is exhausted
            }
        };
        if across {
            std::thread::scope(|s| {
                for _ in 0..threads {
                    s.spawn(|| {
                        loop {
                            let j = next.fetch_add(1, std::sync::atomic::Ordering::Relaxed);
                            if j >= pending.len() {
                                break;
                            }
                            run_one(pending[j], 1);
                        }
                    });
                }
            });
        } else {
            for &i in &pending {
                run_one(i, threads);
            }
        }
    }
    // the smallest cases: the complete tree, if the wall budget allows
    let por_blocked = std::sync::atomic::AtomicU64::new(0);
    {
        let pending: Vec<usize> = (0..cases.len()).filter(|i| cases[*i].try_unbounded && !states[*i].lock().unwrap().done).collect();
        for i in pending {
            if Instant::now() >= deadline {
                break;
            }
            let c = &cases[i];
            let t0 = Instant::now();
            // complete exploration modulo commutation of independent steps (sleep sets)
            let full = std::env::var_os("VERIF_FULL_UNBOUNDED").is_some();
            let (stx, blocked_runs) = if full {
                // self-check of the reduction: the plain, unreduced tree (only feasible for micro cases)
                (explore::explore(Budget::new(Budget::UNBOUNDED, plan.env, plan.fault), explore::Limits { max_execs: u64::MAX, deadline, threads, stop_after_violation_kinds: 0 }, &c.label, || (c.exec)(false)), 0)
            } else {
                explore::explore_por(
                explore::Limits { max_execs: plan.max_execs_per_case.max(50_000_000), deadline, threads, stop_after_violation_kinds: 0 },
                &c.label,
                || (c.exec)(false),
            )
            };
            por_blocked.fetch_add(blocked_runs, std::sync::atomic::Ordering::Relaxed);
            let dt = t0.elapsed().as_secs_f64();
            if let Some(path) = std::env::var_os("VERIF_DUMP_STATES") {
                let v: Vec<serde_json::Value> = stx.witness_of_state.iter().map(|(k, (c, ix))| json!({"state": format!("{k:016x}"), "choices": c, "step": ix})).collect();
                let _ = std::fs::write(format!("{}.{i}.json", path.to_string_lossy()), serde_json::to_string(&v).unwrap_or_default());
            }
            let mut st = states[i].lock().unwrap();
            st.levels.push((Budget::UNBOUNDED, stx.executions, dt));
            if let Some(cap) = &stx.capped {
                st.note = Some(format!("unbounded level aborted: {cap}"));
                st.extra_violations.extend(stx.violations);
            } else {
                st.best = Some((Budget::UNBOUNDED, stx));
                st.done = true;
            }
        }
    }
    let ncases = cases.len().max(1);
    let _ = ncases;
    let results: Vec<(usize, explore::Deepening)> = states
        .into_iter()
        .enumerate()
        .map(|(i, m)| {
            let st = m.into_inner().unwrap();
            let (bound, mut stats) = match st.best {
                Some((k, s)) => (Some(k), s),
                None => (None, explore::Stats::default()),
            };
            for v in st.extra_violations {
                stats.violations.push(v);
            }
            if let Some(p) = st.partial {
                // an aborted deeper level re-executes the schedules of the completed one first: take the larger counts
                if p.executions > stats.executions {
                    stats.executions = p.executions;
                    stats.transitions = p.transitions;
                }
                stats.states.extend(p.states);
                stats.outcomes.extend(p.outcomes);
                stats.witnesses |= p.witnesses;
            }
            (i, explore::Deepening { stats, bound_completed: bound, levels: st.levels, note: st.note })
        })
        .collect();
    let mut witnesses = 0u64;
    let mut min_bound: Option<u32> = Some(Budget::UNBOUNDED);
    let mut outcomes_total = 0u64;
    let mut horizons = 0u64;
    let mut table: Vec<Value> = Vec::new();
    let mut all_unbounded = true;
    let mut capped_cases = 0usize;
    for (i, d) in &results {
        let c = &cases[*i];
        let st = &d.stats;
        rep.evaluations += st.executions;
        rep.transitions += st.transitions;
        rep.states += st.states.len() as u64;
        outcomes_total += st.outcomes.len() as u64;
        witnesses |= st.witnesses;
        horizons += st.horizons;
        let own_cap = c.max_k != Budget::UNBOUNDED && d.bound_completed.is_some_and(|k| k >= c.max_k);
        if own_cap {
            capped_cases += 1;
        } else {
            match (d.bound_completed, min_bound) {
                (None, _) => min_bound = None,
                (Some(k), Some(m)) if k < m => min_bound = Some(k),
                _ => {}
            }
        }
        if d.bound_completed != Some(Budget::UNBOUNDED) {
            all_unbounded = false;
        }
        if let Some(n) = &d.note {
            if rep.caps_hit.len() < 12 {
                let short: String = c.label.chars().take(100).collect();
                rep.caps_hit.push(format!("{short}...: {n}"));
            }
        }
        for v in &st.violations {
            rep.violation_n(
                v.key.clone(),
                format!("[{}] {} (schedule with {} deviation(s), {} choice points)", c.label, v.desc, v.deviations, v.choices.len()),
                json!({"case": c.label, "choices": v.choices}),
                v.count,
            );
        }
        if table.len() < 400 {
            table.push(json!({
                "case": c.label,
                "bound_completed": bound_str(d.bound_completed),
                "executions": st.executions,
                "states": st.states.len(),
                "state_set_hash": set_hash(&st.states),
                "outcome_set_hash": set_hash(&st.outcomes),
                "outcomes": st.outcomes.len(),
                "max_steps": st.max_steps,
                "levels": d.levels.iter().map(|(k, e, t)| json!([bound_str(Some(*k)), e, (t * 1000.0).round() / 1000.0])).collect::<Vec<_>>(),
            }));
        }
        if rep.samples.len() < 4 {
            if let Some(s) = st.samples.last() {
                // render this schedule once more, for the reader
                let (o, _) = with_prefix(s, || (c.exec)(true));
                rep.sample(json!({"case": c.label, "choices": s, "schedule": o.rendering}));
            }
        }
    }
    rep.distinct_nontrivial = outcomes_total.max(rep.states.min(rep.evaluations));
    rep.exhaustive = all_unbounded;
    let n_unb = results.iter().filter(|(_, d)| d.bound_completed == Some(Budget::UNBOUNDED)).count();
    rep.bounds.insert("cases_explored_to_exhaustion".into(), json!(n_unb));
    rep.extra.insert("sleep_set_pruned_paths".into(), json!(por_blocked.load(std::sync::atomic::Ordering::Relaxed)));
    rep.bounds.insert("cases".into(), json!(cases.len()));
    rep.bounds.insert("deviation_bounds_tried".into(), json!(plan.ks.iter().map(|k| bound_str(Some(*k))).collect::<Vec<_>>()));
    rep.bounds.insert("min_deviation_bound_completed_over_cases".into(), json!(bound_str(min_bound)));
    rep.bounds.insert("cases_with_their_own_lower_bound".into(), json!(capped_cases));
    rep.bounds.insert("env_deviation_budget".into(), json!(plan.env));
    rep.bounds.insert("fault_budget".into(), json!(plan.fault));
    rep.extra.insert("distinct_outcomes".into(), json!(outcomes_total));
    rep.extra.insert("horizon_hits".into(), json!(horizons));
    rep.extra.insert("per_case".into(), json!(table));
    let mut wit = serde_json::Map::new();
    for (n, b) in plan.witness_names {
        wit.insert((*n).to_string(), json!(witnesses & b != 0));
    }
    rep.extra.insert("witnesses".into(), Value::Object(wit));
    if min_bound.is_none() {
        rep.machinery_error = Some("a case did not complete even the smallest deviation bound under the wall cap".into());
    }
    if witnesses & plan.required_witnesses != plan.required_witnesses && rep.violations.is_empty() {
        rep.machinery_error = Some(format!(
            "vacuous exploration: required witness bits {:#x} not all observed (got {:#x})",
            plan.required_witnesses, witnesses
        ));
    }
    if rep.evaluations > 0 && outcomes_total <= 1 && rep.violations.is_empty() {
        rep.machinery_error = Some("vacuous exploration: a single distinct outcome over all executions".into());
    }
}
