//! C02 demo 4: a `MuxStream` whose flow was already closed (the peer dropped its end and
//! sent `Reset`, both tasks freed the flow ID) still sends flow-control `Acknowledge`
//! frames under its flow ID when the application drains the data buffered in it.
//! If the ID is in use again, the peer's writer of the NEW stream is credited with window
//! that does not exist, overruns the receive queue of the new stream, the stream is reset,
//! and the reader sees a *clean* end-of-stream after a strict prefix of what the writer
//! wrote and closed successfully.

use core::convert::Infallible;
use core::time::Duration;
use penguin_mux::Multiplexor;
use penguin_mux::config::Options;
use tokio::io::{AsyncReadExt, AsyncWriteExt};
use tokio_tungstenite::{WebSocketStream, tungstenite::protocol::Role};

/// Flow IDs of endpoint A: the same ID is drawn twice in a row.
struct ScriptRng(Vec<u32>);
impl rand::TryRng for ScriptRng {
    type Error = Infallible;
    fn try_next_u32(&mut self) -> Result<u32, Infallible> {
        Ok(if self.0.is_empty() { 0x7777_7777 } else { self.0.remove(0) })
    }
    fn try_next_u64(&mut self) -> Result<u64, Infallible> {
        Ok(u64::from(self.try_next_u32()?))
    }
    fn try_fill_bytes(&mut self, dst: &mut [u8]) -> Result<(), Infallible> {
        for chunk in dst.chunks_mut(4) {
            let v = self.try_next_u32()?.to_le_bytes();
            chunk.copy_from_slice(&v[..chunk.len()]);
        }
        Ok(())
    }
}

const PAUSE: Duration = Duration::from_millis(100);

#[tokio::test(flavor = "multi_thread")]
async fn c02_closed_stream_acknowledges_into_new_flow_with_same_id() {
    let (a, b) = tokio::io::duplex(1 << 16);
    let ws_a = WebSocketStream::from_raw_socket(a, Role::Client, None).await;
    let ws_b = WebSocketStream::from_raw_socket(b, Role::Server, None).await;
    let options = Options::new().rwnd(4).default_rwnd_threshold(2);
    const X: u32 = 0x1234_5678;
    let (mux_a, task_a) =
        Multiplexor::new_detailed::<_, std::time::Instant>(ws_a, options, ScriptRng(vec![X, X]));
    task_a.spawn(None);
    let mux_b = Multiplexor::new_with_opt(ws_b, options, None);

    // ---- the OLD flow on ID X: B sends a window full of data and drops its end ----
    let mut old_a = mux_a.new_stream_channel(b"old", 1).await.unwrap();
    let mut old_b = mux_b.accept_stream_channel().await.unwrap();
    for chunk in [b"a", b"b", b"c", b"d"] {
        old_b.write_all(chunk).await.unwrap();
    }
    tokio::time::sleep(PAUSE).await;
    drop(old_b);
    // `Reset` arrives: both endpoints have freed X. A's application still has the
    // stream object with the four delivered frames in it.
    tokio::time::sleep(PAUSE).await;

    // ---- the NEW flow: A draws X again ----
    let mut new_a = mux_a.new_stream_channel(b"new", 2).await.unwrap();
    let mut new_b = mux_b.accept_stream_channel().await.unwrap();
    assert_eq!(&new_b.dest_host[..], b"new");

    // A's application now gets around to reading what the old stream delivered
    let mut old = Vec::new();
    old_a.read_to_end(&mut old).await.unwrap();
    assert_eq!(old, b"abcd");
    tokio::time::sleep(PAUSE).await;

    // B writes twice A's receive window to the new stream and shuts down; A reads slowly
    let writer = tokio::spawn(async move {
        for chunk in [b"0", b"1", b"2", b"3", b"4", b"5", b"6", b"7"] {
            new_b.write_all(chunk).await?;
        }
        new_b.shutdown().await?;
        std::io::Result::Ok(new_b)
    });
    tokio::time::sleep(PAUSE).await;
    let mut got = Vec::new();
    new_a.read_to_end(&mut got).await.unwrap();
    let writer_result = writer.await.unwrap().map(|_| ());
    assert_eq!(
        String::from_utf8_lossy(&got),
        "01234567",
        "writer result: {writer_result:?}; the reader got a clean EOF"
    );
}
