fn main(){}
