//! C01 (end-to-end transparency of the tunnel): finding 6 and observation O1: FAIL on the unmodified tree, no fix proposed.
//! See hunt/REPORT.md. Run inside `unshare -nm` with the hosts file of the report bound
//! over /etc/hosts (finding 2 needs a `localhost` that is both `::1` and `127.0.0.1`).
#![allow(clippy::all, clippy::pedantic, clippy::unwrap_used, dead_code, unused_imports)]

use penguin_mux::timing::OptionalDuration;
use rusty_penguin_lib::arg::{ClientArgs, Remote, ServerArgs, ServerUrl};
use rusty_penguin_lib::client::{HandlerResources, client_main_inner};
use rusty_penguin_lib::server::server_main;
use std::net::SocketAddr;
use std::str::FromStr;
use std::time::Duration;
use tokio::io::{AsyncReadExt, AsyncWriteExt};
use tokio::net::{TcpListener, TcpStream, UdpSocket};
use tokio::time::timeout;

fn free_tcp_port(host: &str) -> u16 {
    std::net::TcpListener::bind((host, 0))
        .unwrap()
        .local_addr()
        .unwrap()
        .port()
}

fn free_udp_port(host: &str) -> u16 {
    std::net::UdpSocket::bind((host, 0))
        .unwrap()
        .local_addr()
        .unwrap()
        .port()
}

struct Env {
    client: tokio::task::JoinHandle<()>,
    server: tokio::task::JoinHandle<()>,
}

impl Drop for Env {
    fn drop(&mut self) {
        self.client.abort();
        self.server.abort();
    }
}

fn logging() {
    use tracing_subscriber::{EnvFilter, layer::SubscriberExt, util::SubscriberInitExt};
    tracing_subscriber::registry()
        .with(tracing_subscriber::fmt::layer())
        .with(EnvFilter::from_default_env())
        .try_init()
        .ok();
    rusty_penguin_lib::tls::init_crypto_provider();
}

async fn start(remotes: &[String]) -> Env {
    logging();
    let sport = free_tcp_port("127.0.0.1");
    let server_args: &'static ServerArgs = Box::leak(Box::new(ServerArgs {
        host: vec!["127.0.0.1".to_string()],
        port: vec![sport],
        not_found_resp: "404".to_string(),
        timeout: OptionalDuration::from_secs(5),
        ..Default::default()
    }));
    let client_args: &'static ClientArgs = Box::leak(Box::new(ClientArgs {
        server: ServerUrl::from_str(&format!("ws://127.0.0.1:{sport}/ws")).unwrap(),
        remote: remotes
            .iter()
            .map(|r| Remote::from_str(r).unwrap())
            .collect(),
        keepalive: OptionalDuration::NONE,
        max_retry_count: 10,
        max_retry_interval: 10,
        channel_timeout: OptionalDuration::from_secs(10),
        ..Default::default()
    }));
    let (hr, stream_command_rx, datagram_rx) = HandlerResources::create();
    let hr: &'static HandlerResources = Box::leak(Box::new(hr));
    let server = tokio::spawn(async move {
        let r = server_main(server_args).await;
        eprintln!("server exited: {r:?}");
    });
    tokio::time::sleep(Duration::from_millis(300)).await;
    let client = tokio::spawn(async move {
        let r = client_main_inner(client_args, hr, stream_command_rx, datagram_rx).await;
        eprintln!("client exited: {r:?}");
    });
    tokio::time::sleep(Duration::from_millis(700)).await;
    Env { client, server }
}

fn pattern(n: usize, seed: u8) -> Vec<u8> {
    (0..n)
        .map(|i| (i as u32).wrapping_mul(2654435761).to_be_bytes()[0] ^ seed)
        .collect()
}

const T: Duration = Duration::from_secs(20);

// ---------------------------------------------------------------- helpers

async fn udp_echo_target(host: &str) -> (SocketAddr, tokio::task::JoinHandle<()>) {
    let sock = UdpSocket::bind((host, 0)).await.unwrap();
    let addr = sock.local_addr().unwrap();
    let h = tokio::spawn(async move {
        let mut buf = vec![0u8; 70000];
        loop {
            let (n, src) = sock.recv_from(&mut buf).await.unwrap();
            // reply = payload prefixed by nothing: pure echo
            sock.send_to(&buf[..n], src).await.unwrap();
        }
    });
    (addr, h)
}

async fn udp_roundtrip(sock: &UdpSocket, to: SocketAddr, payload: &[u8], wait: Duration) -> Option<(Vec<u8>, SocketAddr)> {
    sock.send_to(payload, to).await.unwrap();
    let mut buf = vec![0u8; 70000];
    match timeout(wait, sock.recv_from(&mut buf)).await {
        Ok(r) => {
            let (n, from) = r.unwrap();
            buf.truncate(n);
            Some((buf, from))
        }
        Err(_) => None,
    }
}

async fn socks5_associate(lport: u16) -> (TcpStream, SocketAddr) {
    let mut sock = TcpStream::connect(("127.0.0.1", lport)).await.unwrap();
    sock.write_all(b"\x05\x01\x00").await.unwrap();
    let mut b = [0u8; 2];
    sock.read_exact(&mut b).await.unwrap();
    sock.write_all(b"\x05\x03\x00\x01\x00\x00\x00\x00\x00\x00").await.unwrap();
    let mut b = [0u8; 10];
    sock.read_exact(&mut b).await.unwrap();
    assert_eq!(&b[..4], &[5, 0, 0, 1]);
    let addr: SocketAddr = ([b[4], b[5], b[6], b[7]], u16::from_be_bytes([b[8], b[9]])).into();
    (sock, addr)
}

fn socks5_udp_wrap(target: SocketAddr, payload: &[u8]) -> Vec<u8> {
    let mut v = vec![0, 0, 0];
    match target {
        SocketAddr::V4(a) => {
            v.push(1);
            v.extend(a.ip().octets());
        }
        SocketAddr::V6(a) => {
            v.push(4);
            v.extend(a.ip().octets());
        }
    }
    v.extend(target.port().to_be_bytes());
    v.extend(payload);
    v
}

/// Strip an RFC 1928 UDP header. Returns (addr, payload)
fn socks5_udp_unwrap(d: &[u8]) -> Option<(SocketAddr, &[u8])> {
    if d.len() < 4 || d[0] != 0 || d[1] != 0 || d[2] != 0 {
        return None;
    }
    match d[3] {
        1 if d.len() >= 10 => {
            let a: SocketAddr = ([d[4], d[5], d[6], d[7]], u16::from_be_bytes([d[8], d[9]])).into();
            Some((a, &d[10..]))
        }
        4 if d.len() >= 22 => {
            let mut ip = [0u8; 16];
            ip.copy_from_slice(&d[4..20]);
            let a: SocketAddr = (ip, u16::from_be_bytes([d[20], d[21]])).into();
            Some((a, &d[22..]))
        }
        _ => None,
    }
}

// ---------------------------------------------------------------- finding 6, observation O1

/// UDP remote bound on the wildcard address: replies must come from the address the client sent to
#[tokio::test]
async fn udp_remote_wildcard_reply_source() {
    let (target, _h) = udp_echo_target("127.0.0.1").await;
    let lport = free_udp_port("0.0.0.0");
    let _env = start(&[format!("0.0.0.0:{lport}:{target}/udp")]).await;
    let to: SocketAddr = ([127, 0, 0, 2], lport).into();
    let s = UdpSocket::bind("127.0.0.1:0").await.unwrap();
    let (got, from) = udp_roundtrip(&s, to, b"hi", Duration::from_secs(3)).await.expect("no reply");
    assert_eq!(got, b"hi");
    assert_eq!(from, to, "reply came from a different address than the one the client sent to");
}

/// RFC 1928 section 7: the header of a reply carries the address of the remote host
#[tokio::test]
async fn socks5_udp_reply_header_names_the_remote_host() {
    let (target, _h) = udp_echo_target("127.0.0.1").await;
    let lport = free_tcp_port("127.0.0.1");
    let _env = start(&[format!("127.0.0.1:{lport}:socks")]).await;
    let (_ctl, relay) = socks5_associate(lport).await;
    let s = UdpSocket::bind("127.0.0.1:0").await.unwrap();
    let (got, _from) = udp_roundtrip(&s, relay, &socks5_udp_wrap(target, b"x"), Duration::from_secs(3))
        .await
        .expect("no reply");
    let (hdr_addr, payload) = socks5_udp_unwrap(&got).expect("malformed reply header");
    assert_eq!(payload, b"x");
    assert_eq!(hdr_addr, target, "reply header does not name the remote host (client is {})", s.local_addr().unwrap());
}
