//! C08 — when the connection ends, everything resolves; a local drop still flushes.
//! A busy two-endpoint scenario; every fault kind injected at every point of every
//! schedule within the deviation bound.

use super::c05::push_viol;
use super::common::{Case, Plan, run_cases};
use crate::Args;
use crate::apps::{BindAnswer, EndPlan, Ev, Op, SideCfg, World, dgram, opts};
use crate::codec::RFrame;
use crate::explore::{Cost, RunOutput, choose};
use crate::link::UNBOUNDED_CAP;
use crate::report::Report;
use crate::sim::{Fnv, Step};
use crate::wiremon::WireMon;
use penguin_mux::ws::Message;
use std::collections::BTreeMap;
use std::time::Duration;

#[derive(Clone, Copy, Debug, PartialEq, Eq, Hash)]
enum Fault {
    CutA2B,
    CutB2A,
    CutBoth,
    DropMuxA,
    DropMuxB,
}
const FAULTS: [Fault; 5] = [Fault::CutA2B, Fault::CutB2A, Fault::CutBoth, Fault::DropMuxA, Fault::DropMuxB];

const W_FAULT_WITH_BLOCKED_WRITER: u64 = 1;
const W_FAULT_WITH_PENDING_OPEN: u64 = 2;
const W_FAULT_WITH_PENDING_BIND: u64 = 4;
const W_DROP_FLUSHED_DATA: u64 = 8;
const W_BROKEN_PIPE: u64 = 16;
const W_CLOSED_SEEN: u64 = 32;
const W_FAULT_TAKEN: u64 = 64;
const W_SECOND_FAULT: u64 = 512;

#[derive(Clone, Copy, Debug)]
struct Cfg {
    rwnd: (u32, u32),
    cap: usize,
    variant: u8,
    /// both endpoints are client-role WebSockets: the source of an endpoint that has taken the peer's Close only ends
    /// when the peer tears the transport down (drops its endpoint)
    linger: bool,
    /// two causes in one execution: after a local drop (orderly teardown in progress) the transport may still fail
    double: bool,
}

fn build(cfg: &Cfg) -> World {
    // (lean scenario: a single attempt per stream request, so that a request pending when the connection ends is on its
    // LAST attempt: it must still report Closed, not "flow id rejected")
    let a = SideCfg { opts: opts(cfg.rwnd.0, 1).bind_buffer_size(1).datagram_buffer_size(2).max_flow_id_retries(if cfg.variant == 2 { 1 } else { 3 }), rng: vec![] };
    let b = SideCfg { opts: opts(cfg.rwnd.1, 1).bind_buffer_size(1).datagram_buffer_size(2), rng: vec![] };
    let mut w = World::two(if cfg.cap == 0 { UNBOUNDED_CAP } else { cfg.cap }, &a, &b);
    if cfg.linger {
        w.sim.link.lock().linger_after_close = [true, true];
    }
    // B: accepts forever; stream 1 is read slowly so that A's writer runs out of credit
    let mut plans_b = BTreeMap::new();
    plans_b.insert(1u8, EndPlan::SeqKeep(vec![Op::ReadToEof(1), Op::W(2), Op::Shutdown, Op::W(1)]));
    plans_b.insert(3u8, EndPlan::SeqKeep(vec![Op::W(3), Op::ReadToEof(2), Op::W(1)]));
    w.spawn_acceptor(1, usize::MAX, plans_b);
    let mut plans_a = BTreeMap::new();
    plans_a.insert(2u8, EndPlan::SeqKeep(vec![Op::ReadOnce(1), Op::W(1), Op::Shutdown, Op::ReadToEof(4), Op::W(1)]));
    w.spawn_acceptor(0, usize::MAX, plans_a);
    // A: stream 1 with a burst longer than B's window (writer blocks), reader waits for the reply
    let burst = cfg.rwnd.1 as usize + 2;
    w.spawn_opener(0, 1, vec![1], 1, EndPlan::Split(vec![Op::Burst(burst, 1), Op::Shutdown, Op::W(1)], vec![Op::ReadToEof(4)]));
    if cfg.variant == 1 {
        w.spawn_opener(0, 3, vec![3], 3, EndPlan::SeqKeep(vec![Op::ReadN(3, 3), Op::W(2), Op::Drop]));
    }
    let lean = cfg.variant == 2;
    // B: opens stream 2 (handshake pending at some point), writes and half-closes
    w.spawn_opener(1, 2, vec![2], 2, EndPlan::SeqKeep(if lean { vec![Op::W(1), Op::Shutdown] } else { vec![Op::W(2), Op::ReadToEof(4), Op::W(1), Op::Shutdown] }));
    // datagrams: A sends two, both sides wait for datagrams forever
    w.spawn_dgram_sender(0, "dgsend.a", if lean { vec![dgram(9, b"h", 53, b"d0")] } else { vec![dgram(9, b"h", 53, b"d0"), dgram(9, b"", 0, b"")] }, 0, false);
    w.spawn_dgram_receiver(1, "dgrecv.b", usize::MAX, cfg.variant == 1);
    if !lean {
        w.spawn_dgram_receiver(0, "dgrecv.a", usize::MAX, false);
    }
    // binds: A asks B (never answered), B asks A (accepted)
    w.spawn_bind_responder(1, 1, vec![0], vec![BindAnswer::Never]);
    w.spawn_bind_requester(0, 0, 1, b"bind".to_vec(), 80);
    if !lean {
        w.spawn_bind_responder(0, 0, vec![], vec![BindAnswer::Accept]);
        w.spawn_bind_requester(1, 1, 3, b"".to_vec(), 0);
    }
    w
}

fn apply_fault(w: &mut World, mon: &mut WireMon, f: Fault) {
    match f {
        Fault::CutA2B => {
            w.sim.link.cut(0);
            mon.on_cut(0);
        }
        Fault::CutB2A => {
            w.sim.link.cut(1);
            mon.on_cut(1);
        }
        Fault::CutBoth => {
            w.sim.link.cut(0);
            w.sim.link.cut(1);
            mon.on_cut(0);
            mon.on_cut(1);
        }
        Fault::DropMuxA => w.drop_mux(0),
        Fault::DropMuxB => w.drop_mux(1),
    }
}

fn exec(cfg: &Cfg, render: bool) -> RunOutput {
    let mut w = build(cfg);
    let mut mon = WireMon::new();
    let mut viol: Vec<(String, String)> = Vec::new();
    let mut fps = Vec::new();
    let mut wit = 0u64;
    let mut fault: Option<(Fault, u64)> = None;
    let mut second: Option<Fault> = None;
    let mut horizon = false;
    let mut wire_at_fault = [0usize; 2];
    let mut at_fault_written: BTreeMap<(u8, u8), (Vec<u8>, bool)> = BTreeMap::new();
    let mut at_fault_dgrams = [0usize; 2];
    let fault_kinds = [Cost::Fault; 5];
    loop {
        if w.sim.steps >= 6000 {
            horizon = true;
            break;
        }
        let en = w.sim.enabled();
        // alternatives: enabled steps (or "stay quiescent"), then the faults while none was injected
        let mut kinds: Vec<Cost> = vec![Cost::Sched; en.len().max(1)];
        if fault.is_none() {
            kinds.extend_from_slice(&fault_kinds);
        } else if cfg.double && second.is_none() && matches!(fault, Some((Fault::DropMuxA | Fault::DropMuxB, _))) {
            // the three transport failures (FAULTS[0..3]) or the drop of the OTHER side's multiplexor while the orderly
            // teardown is under way
            kinds.extend_from_slice(&fault_kinds[..4]);
        }
        if en.is_empty() && fault.is_some() && (kinds.len() == en.len().max(1)) {
            break;
        }
        let c = choose(&kinds);
        let nsched = en.len().max(1);
        if c >= nsched && fault.is_some() {
            let f = match (c - nsched, fault) {
                (3, Some((Fault::DropMuxA, _))) => Fault::DropMuxB,
                (3, _) => Fault::DropMuxA,
                (i, _) => FAULTS[i],
            };
            apply_fault(&mut w, &mut mon, f);
            second = Some(f);
            wit |= W_SECOND_FAULT;
            w.sim.log.push(Step::Extra(f as usize));
            continue;
        }
        if c >= nsched {
            let f = FAULTS[c - nsched];
            // what was pending at the moment of the fault (vacuity witnesses)
            {
                let obs = w.obs.borrow();
                let pend = obs.pending();
                if pend.iter().any(|p| p.starts_with("open")) {
                    wit |= W_FAULT_WITH_PENDING_OPEN;
                }
                if pend.iter().any(|p| p.starts_with("bindreq")) {
                    wit |= W_FAULT_WITH_PENDING_BIND;
                }
                if let Some(m) = w.mux[0].as_ref() {
                    if m.verif_flow_digest().iter().any(|fl| fl.kind == 1 && fl.credit == 0 && !fl.finish_sent) && pend.iter().any(|p| p == "s1.a.w") {
                        wit |= W_FAULT_WITH_BLOCKED_WRITER;
                    }
                }
            }
            {
                let l = w.sim.link.lock();
                mon.absorb(&l);
                wire_at_fault = [mon.frames.iter().filter(|(s, _)| *s == 0).count(), mon.frames.iter().filter(|(s, _)| *s == 1).count()];
            }
            {
                // what the applications had handed over before the fault (flush clause)
                let obs = w.obs.borrow();
                at_fault_written = obs.dirs.iter().map(|(k, d)| (*k, (d.written.clone(), d.shutdown))).collect();
                at_fault_dgrams = [0, 1].map(|x| obs.events.iter().filter(|e| matches!(e, Ev::DgramSent { side, res: Ok(()), .. } if *side == x)).count());
            }
            apply_fault(&mut w, &mut mon, f);
            fault = Some((f, w.sim.steps));
            wit |= W_FAULT_TAKEN;
            w.sim.log.push(Step::Extra(c - nsched));
            continue;
        }
        if en.is_empty() {
            // chose to stay quiescent without a fault: end of a fault-free execution
            break;
        }
        let step = en[c].clone();
        let item = w.sim.apply(&step);
        {
            let l = w.sim.link.lock();
            mon.absorb(&l);
        }
        if let (Step::Deliver(d), Some(it)) = (&step, item.as_ref()) {
            mon.on_delivered(*d, it);
        }
        // fingerprint
        let mut h = Fnv::default();
        let obs = w.obs.borrow();
        h.u64(obs.events.len() as u64);
        for (n, d) in &obs.futures {
            h.str(n);
            h.byte(u8::from(*d));
        }
        for side in 0..2 {
            if let Some(m) = w.mux[side].as_ref() {
                for f in m.verif_flow_digest() {
                    h.u64(u64::from(f.id));
                    h.u64(u64::from(f.credit));
                    h.byte(f.kind | u8::from(f.finish_sent) << 2 | u8::from(f.read_open) << 3);
                    h.u64(f.queued as u64);
                }
            }
            h.byte(0xab);
        }
        {
            let l = w.sim.link.lock();
            for d in 0..2 {
                h.u64(l.dirs[d].inflight.len() as u64);
                h.u64(l.dirs[d].ready.len() as u64);
                h.byte(u8::from(l.dirs[d].cut));
            }
        }
        h.byte(fault.map_or(0xff, |(f, _)| f as u8));
        for (i, t) in w.sim.tasks.iter().enumerate() {
            h.byte(u8::from(t.done) | u8::from(w.sim.is_runnable(i)) << 1);
        }
        fps.push(h.0);
        // reads never fail and always return a prefix of what was written
        for ((tag, dir), d) in &obs.dirs {
            if d.read.len() > d.written.len() || d.read[..] != d.written[..d.read.len()] {
                push_viol(&mut viol, "integrity.prefix", format!("stream {tag} dir {dir}: read {:02x?} is not a prefix of written {:02x?}", d.read, d.written));
            }
            if let Some(e) = &d.read_err {
                push_viol(&mut viol, "read.error", format!("stream {tag} dir {dir}: a read failed with {e}; reads must return the delivered data and then end-of-stream"));
            }
        }
    }
    // ------------------------------------------------------------ verdict at quiescence
    let obs = w.obs.borrow();
    if horizon {
        push_viol(&mut viol, "livelock", "step horizon reached".into());
    }
    for t in &w.sim.tasks {
        if let Some(p) = &t.panicked {
            push_viol(&mut viol, if t.name.starts_with("task") { "panic.task" } else { "panic.app" }, format!("{} panicked: {p}", t.name));
        }
    }
    if let Some((f, _at)) = fault {
        // (1) nothing blocks forever
        let pend = obs.pending();
        if !pend.is_empty() && !horizon {
            let mut kinds: Vec<String> = pend.iter().map(|n| n.trim_end_matches(|c: char| c.is_ascii_digit() || c == '.' || c == 'a' || c == 'b' || c == 'w' || c == 'r').to_string()).collect();
            kinds.sort();
            kinds.dedup();
            push_viol(&mut viol, &format!("hang.{}", kinds.join("+")), format!("after {f:?} the system is quiescent but these operations never completed: {pend:?}"));
        }
        for side in 0..2 {
            if !w.task_done(side) {
                push_viol(&mut viol, "hang.task", format!("after {f:?} the connection task of side {side} never finished"));
            }
        }
        // (2) results are the documented ones
        for e in &obs.events {
            match e {
                Ev::Wrote { res: Err(k), .. } => {
                    wit |= W_BROKEN_PIPE;
                    if k != "BrokenPipe" {
                        push_viol(&mut viol, "write.error-kind", format!("a write failed with {k} instead of BrokenPipe"));
                    }
                }
                Ev::OpenErr { err, .. } | Ev::AcceptErr { err, .. } | Ev::DgramErr { err, .. } | Ev::BindNextErr { err, .. } => {
                    wit |= W_CLOSED_SEEN;
                    if err != "Closed" {
                        push_viol(&mut viol, "mux.error-kind", format!("a multiplexor call failed with {err} instead of Closed ({e:?})"));
                    }
                }
                Ev::BindResult { res: Err(err), .. } => {
                    if err != "Closed" {
                        push_viol(&mut viol, "mux.error-kind", format!("request_bind failed with {err} instead of Closed"));
                    }
                }
                Ev::DgramSent { res: Err(err), .. } => {
                    if err != "Closed" {
                        push_viol(&mut viol, "mux.error-kind", format!("send_datagram failed with {err} instead of Closed"));
                    }
                }
                Ev::Shutdown { res: Err(err), .. } => {
                    push_viol(&mut viol, "shutdown.error", format!("shutdown failed with {err}"));
                }
                _ => {}
            }
        }
        // the bind request that is never answered must not be reported as accepted
        if obs.events.iter().any(|e| matches!(e, Ev::BindResult { side: 0, n: 0, res: Ok(true) })) {
            push_viol(&mut viol, "bind.spurious-true", "a bind request that the peer never answered resolved with true".into());
        }
        // every reader that finished saw end-of-stream (not an error), every stream end is done
        // (3) flush clause: local drop over a healthy transport
        if let (Fault::DropMuxA | Fault::DropMuxB, None) = (f, second) {
            let x = if f == Fault::DropMuxA { 0 } else { 1 };
            // Close is the last thing side x put on the wire
            let l = w.sim.link.lock();
            let mine: Vec<&Message> = l.wire.iter().filter(|e| e.dir == x).map(|e| &e.msg).collect();
            let ncl = mine.iter().filter(|m| matches!(m, Message::Close)).count();
            if ncl != 1 || !matches!(mine.last(), Some(Message::Close)) {
                push_viol(&mut viol, "flush.close-order", format!("after dropping the multiplexor of side {x} the WebSocket must be closed exactly once, after everything else; side {x} sent {} Close message(s), last message {:?}", ncl, mine.last()));
            }
            drop(l);
            // every byte accepted by a successful write of side x is on the wire, in order, per stream
            for ((tag, dir), d) in &obs.dirs {
                let Some(fid) = obs.flow_ids.iter().find(|((t, s), _)| t == tag && *s == x).map(|(_, f)| *f) else { continue };
                let opener_side = if [1u8, 3].contains(tag) { 0 } else { 1 };
                let wdir = u8::from(opener_side != x);
                if *dir != wdir {
                    continue;
                }
                let on_wire: Vec<u8> = mon.frames.iter().filter(|(s, fr)| *s == x && fr.id() == fid).filter_map(|(_, fr)| if let RFrame::Push { data, .. } = fr { Some(data.clone()) } else { None }).flatten().collect();
                let (before, shut_before) = at_fault_written.get(&(*tag, *dir)).cloned().unwrap_or_default();
                // everything accepted BEFORE the drop must be transmitted; what is transmitted is a prefix of what was accepted overall
                if on_wire.len() < before.len() || on_wire[..before.len()] != before[..] || on_wire.len() > d.written.len() || on_wire[..] != d.written[..on_wire.len()] {
                    push_viol(
                        &mut viol,
                        "flush.data-lost",
                        format!("side {x} dropped its multiplexor over a healthy transport; stream {tag}: writes accepted before the drop {:02x?} (in total {:02x?}) but {:02x?} was transmitted before Close", before, d.written, on_wire),
                    );
                } else if !before.is_empty() && mon.frames.iter().skip(wire_at_fault[0] + wire_at_fault[1]).any(|(s, fr)| *s == x && fr.op() == 4) {
                    wit |= W_DROP_FLUSHED_DATA;
                }
                let _ = d;
                if shut_before && !mon.frames.iter().any(|(s, fr)| *s == x && matches!(fr, RFrame::Finish { id } if *id == fid)) {
                    push_viol(&mut viol, "flush.finish-lost", format!("side {x}: stream {tag} was shut down before the drop but no Finish was transmitted before Close"));
                }
            }
            // datagrams accepted by send_datagram on side x are on the wire
            let sent_ok = at_fault_dgrams[x];
            let on_wire = mon.frames.iter().filter(|(s, fr)| *s == x && fr.op() == 6).count();
            if on_wire < sent_ok {
                push_viol(&mut viol, "flush.datagram-lost", format!("side {x}: {sent_ok} datagrams accepted before the drop, {on_wire} transmitted before Close"));
            }
        }
    }
    let mut h = Fnv::default();
    for e in &obs.events {
        h.str(&format!("{e:?}"));
    }
    h.byte(fault.map_or(0xff, |(f, _)| f as u8));
    drop(obs);
    let out = RunOutput { blocked: false,
        steps: w.sim.steps,
        fingerprints: fps,
        outcome: h.0,
        violations: viol,
        witnesses: wit,
        horizon,
        rendering: render.then(|| {
            w.sim
                .log
                .iter()
                .map(|s| match s {
                    Step::Extra(k) => format!("FAULT({:?})", FAULTS[*k]),
                    o => w.sim.describe(o),
                })
                .collect::<Vec<_>>()
                .join(" ")
        }),
    };
    w.sim.teardown();
    out
}

// ------------------------------------------------------------------ late operations under tokio's cooperative budget

const HOWS: [&str; 4] = ["transport failure", "peer Close", "invalid frame", "peer Close with the transport left open (client-role WebSocket, silent peer)"];
const W_LATE_OPS: u64 = 128;
const W_BUDGET_YIELD: u64 = 256;

/// `n` streams are open on the endpoint; the connection then ends for a non-local reason while the
/// application drops all its streams at once and immediately issues new operations. Everything runs
/// inside a tokio runtime WITHOUT `unconstrained`, with one runtime yield per step, so every poll of the
/// subject gets tokio's real per-poll cooperative budget (128 channel operations) -- a task that has
/// more than that to receive yields in the middle of its teardown, as it does in production.
/// host tag of the stream that waits in the accept queue when the connection ends (late operations)
const QUEUED_TAG: u8 = 251;

async fn late_ops_async(n: usize, how: u8, render: bool) -> RunOutput {
    use crate::raw::{RMsg, Raw};
    let cfg = SideCfg { opts: opts(2, 1).bind_buffer_size(1).stream_buffer_size(4), rng: vec![] };
    let mut w = World::one(UNBOUNDED_CAP, 0, &cfg);
    let mut raw = Raw::new(1, w.sim.link.clone());
    for i in 0..n {
        let tag = (i % 200) as u8;
        w.spawn_opener(0, tag, vec![tag, (i / 200) as u8], 1, EndPlan::Seq(vec![Op::Park]));
    }
    let mut viol: Vec<(String, String)> = Vec::new();
    let mut fps = Vec::new();
    let mut wit = 0u64;
    let mut phase = 0;
    let mut log: Vec<String> = Vec::new();
    let mut task_polls_after_fault = 0u32;
    loop {
        if w.sim.steps > 40_000 {
            push_viol(&mut viol, "livelock", "step horizon".into());
            break;
        }
        let en = w.sim.enabled();
        if en.is_empty() {
            if phase == 0 {
                // all streams are established and parked. The peer opens one more stream and writes to it; the
                // application has not called accept_stream_channel for it when the connection ends: it waits in the
                // accept queue and must still be handed out afterwards, with its data, before accept reports Closed
                phase = 1;
                raw.send(&RFrame::Connect { id: 0x7777, rwnd: 2, port: 5, host: vec![QUEUED_TAG] });
                let d = crate::apps::payload(QUEUED_TAG, 0, 0, 3);
                raw.send(&RFrame::Push { id: 0x7777, data: d.clone() });
                w.obs.borrow_mut().dir(QUEUED_TAG, 0).written.extend(d);
                continue;
            }
            if phase == 1 {
                phase = 2;
                // now the connection ends ...
                match how {
                    0 => w.sim.link.cut(1),
                    1 => raw.send_msg(Message::Close),
                    3 => {
                        // the subject is the WebSocket client: after the peer's Close its source stays open until the
                        // peer tears the transport down -- and this peer (frozen host, partition right behind its
                        // Close, balancer that leaves the TCP close to the client) never does
                        w.sim.link.lock().linger_after_close[0] = true;
                        raw.send_msg(Message::Close);
                    }
                    // (an unassigned operation code: the last one, or the first one right behind the assigned range)
                    _ => raw.send_bytes(&[if n % 2 == 1 { 0x7f } else { 0x77 }, 0, 0, 0, 1]),
                }
                // ... the application drops every stream it holds, at once ...
                let idx: Vec<usize> = w.sim.tasks.iter().enumerate().filter(|(_, t)| t.name.starts_with('s') && !t.done).map(|(i, _)| i).collect();
                for i in idx {
                    let name = w.sim.tasks[i].name.clone();
                    w.sim.cancel_task(i);
                    w.obs.borrow_mut().end(&name);
                }
                // ... and immediately issues new operations
                w.spawn_opener(0, 250, vec![250], 9, EndPlan::Seq(vec![Op::Drop]));
                w.spawn_bind_requester(0, 7, 1, b"late".to_vec(), 1);
                w.spawn_dgram_receiver(0, "dgrecv.late", 1, false);
                w.spawn_dgram_sender(0, "dgsend.late", vec![dgram(1, b"x", 1, b"y")], 0, false);
                let mut plans = BTreeMap::new();
                plans.insert(QUEUED_TAG, EndPlan::Seq(vec![Op::ReadToEof(8)]));
                w.spawn_acceptor(0, 2, plans);
                wit |= W_LATE_OPS;
                continue;
            }
            break;
        }
        // establishing the streams is deterministic set-up; the explorer owns everything from the end of the connection on
        let c = if phase < 2 { 0 } else { crate::explore::choose_n(en.len(), Cost::Sched) };
        let step = en[c].clone();
        if render {
            log.push(w.sim.describe(&step));
        }
        if phase == 2 && matches!(&step, Step::Poll(i) if Some(*i) == w.task_idx[0]) {
            task_polls_after_fault += 1;
        }
        w.sim.apply(&step);
        // the raw peer acknowledges every Connect
        for m in raw.pump() {
            if let RMsg::Frame(RFrame::Connect { id, .. }) = m {
                if phase < 2 {
                    raw.send(&RFrame::Acknowledge { id, n: 4 });
                }
            }
        }
        let mut h = Fnv::default();
        h.u64(w.obs.borrow().events.len() as u64);
        h.u64(w.sim.tasks.iter().filter(|t| t.done).count() as u64);
        h.byte(phase);
        h.byte(u8::from(w.task_done(0)));
        if let Some(m) = w.mux[0].as_ref() {
            h.u64(m.verif_flow_digest().len() as u64);
        }
        fps.push(h.0);
        // a fresh cooperative budget for the next poll, like a real runtime gives every task poll
        tokio::task::yield_now().await;
    }
    if task_polls_after_fault > 3 {
        wit |= W_BUDGET_YIELD;
    }
    let obs = w.obs.borrow();
    let pend = obs.pending();
    if !pend.is_empty() {
        push_viol(
            &mut viol,
            "late.hang",
            format!("the connection ended ({}) with {n} streams being dropped at the same time; operations issued right then never completed: {pend:?} (connection task finished: {}, needed {task_polls_after_fault} polls after the end)", HOWS[usize::from(how.min(3))], w.task_done(0)),
        );
    }
    if !w.task_done(0) {
        push_viol(&mut viol, "hang.task", "the connection task never finished".into());
    }
    // the stream that was established and queued for accept before the end is still handed out, with its data
    {
        let accepted = obs.events.iter().any(|e| matches!(e, Ev::Accepted { tag, .. } if *tag == QUEUED_TAG));
        let d = obs.dirs.get(&(QUEUED_TAG, 0)).cloned().unwrap_or_default();
        if !accepted {
            push_viol(&mut viol, "late.queued-stream-lost", format!("a stream the peer had opened (acknowledged, data delivered) was waiting in the accept queue when the connection ended ({}); accept_stream_channel called afterwards did not hand it out", HOWS[usize::from(how.min(3))]));
        } else if d.read != d.written || !d.eof {
            push_viol(&mut viol, "late.queued-stream-data", format!("the stream handed out of the accept queue after the connection ended read {:02x?} (eof={}), the peer had written {:02x?}", d.read, d.eof, d.written));
        }
    }
    for e in &obs.events {
        match e {
            Ev::OpenErr { err, .. } | Ev::AcceptErr { err, .. } | Ev::DgramErr { err, .. } if err != "Closed" => push_viol(&mut viol, "mux.error-kind", format!("late operation failed with {err} instead of Closed")),
            Ev::BindResult { res: Err(err), .. } if err != "Closed" => push_viol(&mut viol, "mux.error-kind", format!("late request_bind failed with {err}")),
            Ev::BindResult { res: Ok(true), .. } => push_viol(&mut viol, "bind.spurious-true", "late bind request resolved true".into()),
            Ev::OpenOk { tag: 250, .. } => push_viol(&mut viol, "late.open-succeeded", "a stream request issued after the connection ended succeeded".into()),
            _ => {}
        }
    }
    for t in &w.sim.tasks {
        if let Some(p) = &t.panicked {
            push_viol(&mut viol, "panic", format!("{} panicked: {p}", t.name));
        }
    }
    let mut h = Fnv::default();
    for e in obs.events.iter().rev().take(12) {
        h.str(&format!("{e:?}"));
    }
    h.u64(u64::from(task_polls_after_fault));
    drop(obs);
    let out = RunOutput { blocked: false, steps: w.sim.steps, fingerprints: fps, outcome: h.0, violations: viol, witnesses: wit, horizon: false, rendering: render.then(|| log.iter().rev().take(60).rev().cloned().collect::<Vec<_>>().join(" ")) };
    w.sim.teardown();
    out
}

fn exec_late(n: usize, how: u8, render: bool) -> RunOutput {
    let rt = tokio::runtime::Builder::new_current_thread().build().expect("runtime");
    rt.block_on(late_ops_async(n, how, render))
}

pub fn run(args: &Args) -> Report {
    let mut rep = Report::new("C08", &args.tier, "psim", "fault_enumeration");
    let thorough = args.thorough();
    let mut cases = Vec::new();
    let cfgs: Vec<Cfg> = if thorough {
        vec![
            Cfg { rwnd: (2, 2), cap: 0, variant: 0, linger: false, double: false },
            Cfg { rwnd: (2, 2), cap: 0, variant: 1, linger: false, double: false },
            Cfg { rwnd: (1, 3), cap: 0, variant: 1, linger: false, double: false },
            Cfg { rwnd: (2, 1), cap: 1, variant: 0, linger: false, double: false },
            Cfg { rwnd: (3, 2), cap: 2, variant: 1, linger: false, double: false },
            Cfg { rwnd: (2, 2), cap: 0, variant: 2, linger: false, double: false },
            Cfg { rwnd: (1, 1), cap: 1, variant: 2, linger: false, double: false },
            Cfg { rwnd: (2, 2), cap: 0, variant: 2, linger: true, double: false },
            Cfg { rwnd: (2, 1), cap: 1, variant: 0, linger: true, double: false },
            Cfg { rwnd: (2, 2), cap: 0, variant: 2, linger: false, double: true },
            Cfg { rwnd: (2, 1), cap: 1, variant: 0, linger: false, double: true },
            Cfg { rwnd: (2, 2), cap: 0, variant: 2, linger: true, double: true },
        ]
    } else {
        vec![Cfg { rwnd: (2, 2), cap: 0, variant: 2, linger: false, double: false }, Cfg { rwnd: (2, 1), cap: 1, variant: 0, linger: false, double: false }, Cfg { rwnd: (2, 2), cap: 0, variant: 2, linger: true, double: false }, Cfg { rwnd: (2, 2), cap: 0, variant: 2, linger: false, double: true }, Cfg { rwnd: (2, 1), cap: 1, variant: 0, linger: false, double: true }, Cfg { rwnd: (2, 2), cap: 0, variant: 2, linger: true, double: true }]
    };
    for cfg in cfgs {
        // quick tier: the lean scenario gets every fault at every point of every <= 1-deviation schedule, the busy one
        // every fault at every point of the canonical schedule; the thorough tier explores all of them deeper
        let max_k = if !thorough && (cfg.variant != 2 || cfg.double) { 0 } else if cfg.double { 1 } else { u32::MAX };
        cases.push(Case { try_unbounded: false, max_k, label: format!("{} scenario rwnd={:?} cap={} variant={}{}{}", if cfg.variant == 2 { "lean" } else { "busy" }, cfg.rwnd, cfg.cap, cfg.variant, if cfg.linger { " client-role WebSockets (source outlives the peer's Close)" } else { "" }, if cfg.double { " + a transport failure at any point after a local drop (two faults)" } else { "" }), exec: Box::new(move |r| exec(&cfg, r)) });
    }
    for n in if thorough { vec![0usize, 3, 127, 129, 140, 300] } else { vec![3usize, 140] } {
        for how in 0..4u8 {
            cases.push(Case { try_unbounded: false, max_k: if n > 10 { 1 } else { u32::MAX }, label: format!("late operations: {n} streams dropped when the connection ends by {}", HOWS[usize::from(how)]), exec: Box::new(move |r| exec_late(n, how, r)) });
        }
    }
    let plan = Plan {
        ks: if thorough { vec![0, 1, 2] } else { vec![0, 1] },
        env: 0,
        fault: 2,
        total_wall: Duration::from_secs(if thorough { 1800 } else { 100 }),
        max_execs_per_case: 20_000_000,
        required_witnesses: W_SECOND_FAULT | W_LATE_OPS | W_BUDGET_YIELD | W_FAULT_TAKEN | W_FAULT_WITH_BLOCKED_WRITER | W_FAULT_WITH_PENDING_OPEN | W_FAULT_WITH_PENDING_BIND | W_DROP_FLUSHED_DATA | W_BROKEN_PIPE | W_CLOSED_SEEN,
        adaptive: thorough,
        witness_names: &[
            ("fault_injected", W_FAULT_TAKEN),
            ("transport_failure_during_orderly_teardown", W_SECOND_FAULT),
            ("fault_while_writer_blocked_on_credit", W_FAULT_WITH_BLOCKED_WRITER),
            ("fault_while_open_request_pending", W_FAULT_WITH_PENDING_OPEN),
            ("fault_while_bind_request_pending", W_FAULT_WITH_PENDING_BIND),
            ("drop_flushed_queued_data", W_DROP_FLUSHED_DATA),
            ("broken_pipe_observed", W_BROKEN_PIPE),
            ("closed_observed", W_CLOSED_SEEN),
            ("late_operations_issued", W_LATE_OPS),
            ("teardown_yielded_on_cooperative_budget", W_BUDGET_YIELD),
        ],
    };
    rep.rule = "psim: busy two-endpoint scenario (stream with a writer blocked on credit and a blocked reader, a stream request in handshake, accept loops, pending get_datagram on both sides, a bind request that is never answered and one that is, datagrams, half-closes); at EVERY scheduling point (and at quiescence) of every schedule with <= k deviations each fault of {cut a->b, cut b->a, cut both, drop Multiplexor A, drop Multiplexor B} is injected once, then the system runs to quiescence: no application future and no task future may be left pending, reads only ever return delivered prefix then 0, failed writes are BrokenPipe, failed multiplexor calls are Closed (bind: false/Closed), and for a drop over a healthy transport every accepted write/Finish/datagram of that side is on the wire, in order, before exactly one final Close. Second part (\"late operations\"): n streams open against a raw peer; the connection ends (transport failure / peer Close / invalid frame / peer Close after which the transport stays open and silent, as a client-role WebSocket sees it from a peer that froze right behind its Close) while the application drops all n streams at once and immediately issues new_stream_channel, request_bind, send_datagram, get_datagram and accept; executed inside a tokio runtime with the real per-poll cooperative budget (a teardown with more than 128 pending notifications yields in the middle); every late operation must complete with Closed".into();
    rep.assumptions = vec![
        "a cut is a reported failure (sender's sink errors, receiver's source yields one error then ends); a silent one-directional loss without keepalive is indistinguishable from a slow peer and is C16's subject (keepalive)".into(),
        "dropping a Multiplexor first cancels the application futures that still borrow it (safe Rust cannot do otherwise); streams already handed out live on".into(),
        "peer Close and invalid frames are injected by C10's raw peer".into(),
    ];
    run_cases(args, &mut rep, cases, &plan);
    rep
}
