//! C14 wire-level probe with a backend, and HTTP/2.
use bytes::Bytes;
use http::{HeaderValue, Request, Response};
use http_body_util::{BodyExt, Full};
use hyper::body::Incoming;
use hyper::service::service_fn;
use hyper_util::rt::{TokioExecutor, TokioIo};
use rusty_penguin_lib::arg::BackendUrl;
use rusty_penguin_lib::server::{State, serve_connection};
use rusty_penguin_lib::tls::MaybeTlsStream;
use std::convert::Infallible;
use std::net::SocketAddr;
use std::str::FromStr;
use std::sync::OnceLock;
use std::time::Duration;
use tokio::io::{AsyncReadExt, AsyncWriteExt};
use tokio::net::{TcpListener, TcpStream};

static PSK: HeaderValue = HeaderValue::from_static("s3cret Key");
static BACKEND: OnceLock<BackendUrl> = OnceLock::new();

async fn echo(req: Request<Incoming>) -> Result<Response<Full<Bytes>>, Infallible> {
    let mut s = format!(
        "{} {} {:?}\n",
        req.method(),
        req.uri().path().replace("/nonexistent", "/ws"),
        req.version()
    );
    let mut hs: Vec<String> = req
        .headers()
        .iter()
        .map(|(k, v)| format!("{k}: {:?}", v))
        .collect();
    hs.sort();
    s.push_str(&hs.join("\n"));
    let wants101 = req.headers().contains_key("x-want-101");
    let body = req.into_body().collect().await.unwrap().to_bytes();
    s.push_str(&format!("\nbody={body:?}\n"));
    let mut b = Response::builder();
    if wants101 {
        b = b
            .status(101)
            .header("connection", "upgrade")
            .header("upgrade", "websocket");
    }
    Ok(b.header("x-backend", "yes").body(Full::new(Bytes::from(s))).unwrap())
}

async fn start_backend() -> SocketAddr {
    let l = TcpListener::bind("127.0.0.1:0").await.unwrap();
    let a = l.local_addr().unwrap();
    tokio::spawn(async move {
        loop {
            let (s, _) = l.accept().await.unwrap();
            tokio::spawn(async move {
                let _ = hyper::server::conn::http1::Builder::new()
                    .serve_connection(TokioIo::new(s), service_fn(echo))
                    .with_upgrades()
                    .await;
            });
        }
    });
    a
}

async fn start(state: State) -> SocketAddr {
    let l = TcpListener::bind("127.0.0.1:0").await.unwrap();
    let a = l.local_addr().unwrap();
    tokio::spawn(async move {
        loop {
            let (s, _) = l.accept().await.unwrap();
            tokio::spawn(serve_connection(MaybeTlsStream::Plain(s), state.clone()));
        }
    });
    a
}

async fn raw(addr: SocketAddr, req: &[u8]) -> String {
    let mut s = TcpStream::connect(addr).await.unwrap();
    s.write_all(req).await.unwrap();
    let mut out = Vec::new();
    let mut buf = [0u8; 4096];
    loop {
        match tokio::time::timeout(Duration::from_millis(200), s.read(&mut buf)).await {
            Ok(Ok(0)) => {
                out.extend_from_slice(b"<EOF>");
                break;
            }
            Ok(Ok(n)) => out.extend_from_slice(&buf[..n]),
            Ok(Err(e)) => {
                out.extend_from_slice(format!("<ERR {e}>").as_bytes());
                break;
            }
            Err(_) => break,
        }
    }
    let s = String::from_utf8_lossy(&out).to_string();
    s.lines()
        .filter(|l| !l.to_ascii_lowercase().starts_with("date:"))
        .collect::<Vec<_>>()
        .join("\n")
}

fn req(method: &str, path: &str, ver: &str, hdrs: &[(&str, &str)], tail: &str) -> Vec<u8> {
    let mut s = format!("{method} {path} {ver}\r\nHost: x\r\n");
    for (k, v) in hdrs {
        s.push_str(&format!("{k}: {v}\r\n"));
    }
    s.push_str("\r\n");
    s.push_str(tail);
    s.into_bytes()
}

const VALID: [(&str, &str); 6] = [
    ("Connection", "Upgrade"),
    ("Upgrade", "websocket"),
    ("Sec-WebSocket-Version", "13"),
    ("Sec-WebSocket-Protocol", "penguin-v7"),
    ("Sec-WebSocket-Key", "dGhlIHNhbXBsZSBub25jZQ=="),
    ("X-Penguin-PSK", "s3cret Key"),
];

#[tokio::test(flavor = "multi_thread")]
async fn c14_backend_matrix() {
    rusty_penguin_lib::tls::init_crypto_provider();
    let baddr = start_backend().await;
    BACKEND
        .set(BackendUrl::from_str(&format!("http://{baddr}/base/")).unwrap())
        .unwrap();
    let mut bad = 0;
    for fwd in [false, true] {
        let state = State::new()
            .await
            .unwrap()
            .with_backend(Some(BACKEND.get().unwrap()))
            .backend_add_forwarding_headers(fwd)
            .with_not_found_resp("NF-body")
            .obfs(true)
            .with_ws_psk(Some(&PSK));
        let addr = start(state).await;
        let base: Vec<(String, String)> = VALID
            .iter()
            .map(|(k, v)| (k.to_string(), v.to_string()))
            .collect();
        let mut cases: Vec<(String, Vec<(String, String)>, &str, &str, &str)> = Vec::new();
        cases.push(("valid".into(), base.clone(), "GET", "HTTP/1.1", ""));
        cases.push(("valid-http10".into(), base.clone(), "GET", "HTTP/1.0", ""));
        cases.push(("post".into(), base.clone(), "POST", "HTTP/1.1", ""));
        cases.push(("head".into(), base.clone(), "HEAD", "HTTP/1.1", ""));
        cases.push(("options".into(), base.clone(), "OPTIONS", "HTTP/1.1", ""));
        {
            let mut h = base.clone();
            h.push(("Content-Length".into(), "5".into()));
            cases.push(("post-body".into(), h.clone(), "POST", "HTTP/1.1", "hello"));
            h[5].1 = "wrong".into();
            cases.push(("get-body-wrongpsk".into(), h, "GET", "HTTP/1.1", "hello"));
        }
        {
            let mut h = base.clone();
            h[5].1 = "wrong".into();
            h.push(("X-Want-101".into(), "1".into()));
            cases.push(("wrongpsk-backend-101".into(), h, "GET", "HTTP/1.1", ""));
        }
        {
            let mut h = base.clone();
            h[5].1 = "wrong".into();
            h.push(("Expect".into(), "100-continue".into()));
            h.push(("Content-Length".into(), "5".into()));
            cases.push(("wrongpsk-expect".into(), h, "GET", "HTTP/1.1", "hello"));
        }
        for i in 0..6 {
            let (k, v) = (&base[i].0, &base[i].1);
            let variants: Vec<(&str, Vec<(String, String)>)> = vec![
                ("absent", vec![]),
                ("nearmiss", vec![(k.clone(), format!("{v}x"))]),
                ("empty", vec![(k.clone(), String::new())]),
                ("dup-bad-good", vec![(k.clone(), "zzz".into()), (k.clone(), v.clone())]),
                ("list", vec![(k.clone(), format!("zzz, {v}"))]),
            ];
            for (name, repl) in variants {
                let mut h = base.clone();
                h.splice(i..=i, repl);
                cases.push((format!("{k}:{name}"), h, "GET", "HTTP/1.1", ""));
            }
        }
        for (name, hdrs, method, ver, tail) in cases {
            let hv: Vec<(&str, &str)> = hdrs.iter().map(|(a, b)| (a.as_str(), b.as_str())).collect();
            let r_ws = raw(addr, &req(method, "/ws", ver, &hv, tail)).await;
            let r_nx = raw(addr, &req(method, "/nonexistent", ver, &hv, tail)).await;
            let status = r_ws.lines().next().unwrap_or("").to_string();
            let same = r_ws == r_nx;
            let tunnel = status.contains("101") && !r_ws.contains("x-backend");
            println!("fwd={fwd} {name:40} /ws -> {status:32} tunnel={tunnel} same-as-unknown={same}");
            if !tunnel && !same {
                bad += 1;
                println!("--- /ws:\n{r_ws}\n--- /nonexistent:\n{r_nx}");
            }
            if name == "Connection:absent" || name == "wrongpsk-backend-101" {
                println!("sample:\n{r_ws}");
            }
        }
    }
    assert_eq!(bad, 0);
}

async fn h2_get(addr: SocketAddr, path: &str, hdrs: &[(&str, &str)]) -> String {
    let s = TcpStream::connect(addr).await.unwrap();
    let (mut sr, conn) = hyper::client::conn::http2::handshake::<_, _, Full<Bytes>>(
        TokioExecutor::new(),
        TokioIo::new(s),
    )
    .await
    .unwrap();
    tokio::spawn(conn);
    let mut b = Request::builder().method("GET").uri(format!("http://x{path}"));
    for (k, v) in hdrs {
        b = b.header(*k, *v);
    }
    match sr.send_request(b.body(Full::new(Bytes::new())).unwrap()).await {
        Ok(resp) => {
            let (p, body) = resp.into_parts();
            let mut hs: Vec<String> = p
                .headers
                .iter()
                .filter(|(k, _)| k.as_str() != "date")
                .map(|(k, v)| format!("{k}: {v:?}"))
                .collect();
            hs.sort();
            let body = body.collect().await.map(|b| b.to_bytes());
            format!("{:?} {} {hs:?} {body:?}", p.version, p.status)
        }
        Err(e) => format!("ERR {e:?}"),
    }
}

#[tokio::test(flavor = "multi_thread")]
async fn c14_h2() {
    rusty_penguin_lib::tls::init_crypto_provider();
    for obfs in [false, true] {
        let state = State::new()
            .await
            .unwrap()
            .with_backend_http2_support(false)
            .with_not_found_resp("NF-body")
            .obfs(obfs)
            .with_ws_psk(Some(&PSK));
        let addr = start(state).await;
        // h2 forbids connection/upgrade headers; send the rest
        let hs: Vec<(&str, &str)> = VALID[2..].to_vec();
        for p in ["/ws", "/nonexistent", "/health", "/version"] {
            println!("h2 obfs={obfs} {p:14} -> {}", h2_get(addr, p, &hs).await);
        }
        println!("h2 obfs={obfs} /ws+conn -> {}", h2_get(addr, "/ws", &VALID).await);
        println!("h2 obfs={obfs} /nx+conn -> {}", h2_get(addr, "/nonexistent", &VALID).await);
    }
}
