//! C01 (third review): one datagram that the server cannot send (destination that does not
//! resolve, port 0, a broadcast address, a host name that is not UTF-8) ends the server-side
//! UDP forwarder of the flow. The flow carries ALL exchanges of that local client (one flow
//! id per local client address), so replies of OTHER, perfectly reachable targets that are
//! still outstanding are lost, and the next datagram to such a target leaves from a new
//! source port.
//!
//! History of every case (one SOCKS5 UDP association, one local client):
//!   1. client -> target A: "question-1"   (A answers 700 ms after it got the question)
//!   2. client -> destination B (cannot be sent to), right after A has seen datagram 1
//!   3. the answer of A must reach the client (property: "every reply is delivered to
//!      exactly the local client that originated the exchange")
//!   4. client -> target A: "question-2" must leave the server from the same address as
//!      "question-1" did, like datagrams of one UDP socket / one SOCKS5 association do.
//!
//! `control_second_destination_is_fine` is the same history with a reachable B and passes.
//!
//! Run (needs loopback only):
//!   unshare -n bash -c 'ip link set lo up; cargo test -p rusty-penguin --offline \
//!       --test c01_udp_bad_destination -- --test-threads=1'

use rusty_penguin_lib::arg::{ClientArgs, Remote, ServerUrl};
use rusty_penguin_lib::client::{HandlerResources, client_main_inner};
use rusty_penguin_lib::server::{State, run_listener};
use std::net::{Ipv4Addr, SocketAddr};
use std::str::FromStr;
use std::time::Duration;
use tokio::io::{AsyncReadExt, AsyncWriteExt};
use tokio::net::{TcpListener, TcpStream, UdpSocket};
use tokio::time::{sleep, timeout};

struct Tunnel {
    server: tokio::task::JoinHandle<()>,
    client: tokio::task::JoinHandle<Result<(), rusty_penguin_lib::client::Error>>,
}
impl Drop for Tunnel {
    fn drop(&mut self) {
        self.server.abort();
        self.client.abort();
    }
}

fn free_tcp_port() -> u16 {
    let l = std::net::TcpListener::bind("127.0.0.1:0").unwrap();
    l.local_addr().unwrap().port()
}

/// A penguin server and a penguin client (public entry points), connected over loopback.
async fn start_tunnel(remote: &str) -> Tunnel {
    rusty_penguin_lib::tls::init_crypto_provider();
    let listener = TcpListener::bind("127.0.0.1:0").await.unwrap();
    let sport = listener.local_addr().unwrap().port();
    let state = State::new().await.unwrap();
    let server = tokio::spawn(run_listener(listener, None, state));
    let args: &'static ClientArgs = Box::leak(Box::new(ClientArgs {
        server: ServerUrl::from_str(&format!("ws://127.0.0.1:{sport}/ws")).unwrap(),
        remote: vec![Remote::from_str(remote).unwrap()],
        keepalive: penguin_mux::timing::OptionalDuration::NONE,
        max_retry_count: 3,
        max_retry_interval: 100,
        channel_timeout: Duration::from_secs(10).into(),
        handshake_timeout: Duration::from_secs(10).into(),
        ..Default::default()
    }));
    let (hr, stream_command_rx, datagram_rx) = HandlerResources::create();
    let hr: &'static HandlerResources = Box::leak(Box::new(hr));
    let client = tokio::spawn(client_main_inner(args, hr, stream_command_rx, datagram_rx));
    Tunnel { server, client }
}

/// Open a SOCKS5 UDP association; returns the control connection and the relay address.
async fn socks5_udp_associate(socks_addr: &str) -> (TcpStream, SocketAddr) {
    let mut sock = loop {
        if let Ok(s) = TcpStream::connect(socks_addr).await {
            break s;
        }
        sleep(Duration::from_millis(50)).await;
    };
    sock.write_all(b"\x05\x01\x00").await.unwrap();
    let mut buf = [0u8; 2];
    sock.read_exact(&mut buf).await.unwrap();
    assert_eq!(&buf, b"\x05\x00");
    sock.write_all(b"\x05\x03\x00\x01\x00\x00\x00\x00\x00\x00")
        .await
        .unwrap();
    let mut rep = [0u8; 10];
    sock.read_exact(&mut rep).await.unwrap();
    assert_eq!(&rep[..4], b"\x05\x00\x00\x01");
    let ip = Ipv4Addr::new(rep[4], rep[5], rep[6], rep[7]);
    let port = u16::from_be_bytes([rep[8], rep[9]]);
    (sock, (ip, port).into())
}

fn request_v4(dst: SocketAddr, payload: &[u8]) -> Vec<u8> {
    let SocketAddr::V4(d) = dst else { panic!() };
    let mut v = vec![0, 0, 0, 1];
    v.extend(d.ip().octets());
    v.extend(d.port().to_be_bytes());
    v.extend(payload);
    v
}

fn request_name(name: &[u8], port: u16, payload: &[u8]) -> Vec<u8> {
    let mut v = vec![0, 0, 0, 3, u8::try_from(name.len()).unwrap()];
    v.extend(name);
    v.extend(port.to_be_bytes());
    v.extend(payload);
    v
}

/// Strip the RFC 1928 UDP header of a reply
fn strip_reply_header(buf: &[u8]) -> &[u8] {
    assert_eq!(&buf[..3], &[0, 0, 0], "RSV / FRAG of the reply header");
    match buf[3] {
        1 => &buf[10..],
        4 => &buf[22..],
        3 => &buf[7 + usize::from(buf[4])..],
        atyp => panic!("ATYP {atyp} in the reply header"),
    }
}

async fn history(case: &str, datagram_to_b: Vec<u8>) {
    let socks_port = free_tcp_port();
    let _tunnel = start_tunnel(&format!("127.0.0.1:{socks_port}:socks")).await;
    // Target A echoes every datagram 700 ms after it arrived and reports where it came from
    let target_a = UdpSocket::bind("127.0.0.1:0").await.unwrap();
    let target_a_addr = target_a.local_addr().unwrap();
    let (seen_tx, mut seen_rx) = tokio::sync::mpsc::unbounded_channel();
    tokio::spawn(async move {
        let mut buf = vec![0u8; 2048];
        loop {
            let (n, src) = target_a.recv_from(&mut buf).await.unwrap();
            seen_tx.send(src).ok();
            sleep(Duration::from_millis(700)).await;
            target_a.send_to(&buf[..n], src).await.unwrap();
        }
    });
    let (_control, relay) = socks5_udp_associate(&format!("127.0.0.1:{socks_port}")).await;
    let local = UdpSocket::bind("127.0.0.1:0").await.unwrap();

    // 1. question for A
    local
        .send_to(&request_v4(target_a_addr, b"question-1"), relay)
        .await
        .unwrap();
    let src1 = timeout(Duration::from_secs(5), seen_rx.recv())
        .await
        .unwrap_or_else(|_| panic!("[{case}] target A never saw datagram 1"))
        .unwrap();
    // 2. while the answer is outstanding: one datagram to B
    local.send_to(&datagram_to_b, relay).await.unwrap();
    // 3. the answer of A
    let mut buf = vec![0u8; 2048];
    match timeout(Duration::from_secs(5), local.recv_from(&mut buf)).await {
        Ok(Ok((n, from))) => {
            assert_eq!(from, relay, "[{case}] reply does not come from the relay");
            assert_eq!(strip_reply_header(&buf[..n]), b"question-1");
        }
        other => panic!(
            "[{case}] the reply of target A to datagram 1 was never delivered to the local client \
             ({other:?}); the datagram to B ended the server's forwarder of this client"
        ),
    }
    // 4. next question for A
    local
        .send_to(&request_v4(target_a_addr, b"question-2"), relay)
        .await
        .unwrap();
    let src2 = timeout(Duration::from_secs(5), seen_rx.recv())
        .await
        .unwrap_or_else(|_| panic!("[{case}] target A never saw datagram 2"))
        .unwrap();
    assert_eq!(
        src1, src2,
        "[{case}] datagrams 1 and 2 of the same local client reached target A from different addresses"
    );
    match timeout(Duration::from_secs(5), local.recv_from(&mut buf)).await {
        Ok(Ok((n, _))) => assert_eq!(strip_reply_header(&buf[..n]), b"question-2"),
        other => panic!("[{case}] reply 2 never arrived ({other:?})"),
    }
}

#[tokio::test(flavor = "multi_thread", worker_threads = 4)]
async fn control_second_destination_is_fine() {
    let b = UdpSocket::bind("127.0.0.1:0").await.unwrap();
    history("control", request_v4(b.local_addr().unwrap(), b"x")).await;
}

/// B is a name that does not resolve (`.invalid` never does, RFC 6761)
#[tokio::test(flavor = "multi_thread", worker_threads = 4)]
async fn destination_name_does_not_resolve() {
    history(
        "unresolvable name",
        request_name(b"no-such-host.invalid", 9, b"x"),
    )
    .await;
}

/// B is port 0 (sendto fails with EINVAL)
#[tokio::test(flavor = "multi_thread", worker_threads = 4)]
async fn destination_port_zero() {
    history("port 0", request_v4("127.0.0.1:0".parse().unwrap(), b"x")).await;
}

/// B is the limited broadcast address (sendto fails with EACCES without SO_BROADCAST)
#[tokio::test(flavor = "multi_thread", worker_threads = 4)]
async fn destination_broadcast_address() {
    history(
        "broadcast",
        request_v4("255.255.255.255:9".parse().unwrap(), b"x"),
    )
    .await;
}

/// B is a DOMAINNAME that is not UTF-8 (legal octets in RFC 1928)
#[tokio::test(flavor = "multi_thread", worker_threads = 4)]
async fn destination_name_not_utf8() {
    history("non-UTF-8 name", request_name(b"\xff\xfe.example", 9, b"x")).await;
}
