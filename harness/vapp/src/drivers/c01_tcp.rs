//! C01 helper: one TCP matrix point. Real penguin client + server, a harness-played target and
//! `conc` harness-played local connections; the oracle compares what each end received with
//! what the other end sent and checks the close choreography.

use super::c01_env::{self as env, ConnectFail, Env, Tunnel};
use super::c01_proto::{self as proto, Shake};
use serde_json::{Value, json};
use std::net::{IpAddr, Ipv4Addr, SocketAddr};
use std::sync::atomic::{AtomicBool, AtomicUsize, Ordering};
use std::sync::{Arc, Mutex};
use std::time::{Duration, Instant};
use tokio::io::{AsyncRead, AsyncReadExt, AsyncWrite, AsyncWriteExt};
use tokio::net::{TcpListener, TcpStream};
use tokio::sync::{mpsc, oneshot};

pub trait Io: AsyncRead + AsyncWrite + Unpin + Send {}
impl<T: AsyncRead + AsyncWrite + Unpin + Send> Io for T {}
pub type BoxIo = Box<dyn Io>;

#[derive(Clone, Copy, Debug, PartialEq, Eq, Hash)]
pub enum Entry {
    TcpRemote,
    UnixRemote,
    Socks4,
    Socks4a,
    Socks5Ip,
    Socks5Domain,
    HttpConnect,
    /// the target listens on [::1] and the remote specification names it as `[::1]:port`
    TcpRemoteV6,
    /// the target listens on [::1] and the SOCKS5 request carries ATYP = 4
    Socks5Ip6,
    /// the target listens on [::1] and the request line is `CONNECT [::1]:port HTTP/1.1`
    HttpConnectV6,
}

impl Entry {
    /// the entry points of the complete product (targets on 127.0.0.1)
    pub const ALL: [Entry; 7] = [Entry::TcpRemote, Entry::UnixRemote, Entry::Socks4, Entry::Socks4a, Entry::Socks5Ip, Entry::Socks5Domain, Entry::HttpConnect];
    /// the entry points that can name an IPv6 literal; their target listens on [::1]
    /// (a small sub-matrix, and only where the IPv6 loopback address exists)
    pub const V6: [Entry; 3] = [Entry::TcpRemoteV6, Entry::Socks5Ip6, Entry::HttpConnectV6];
    pub fn v6literal(self) -> bool {
        matches!(self, Entry::TcpRemoteV6 | Entry::Socks5Ip6 | Entry::HttpConnectV6)
    }
    pub fn name(self) -> &'static str {
        match self {
            Entry::TcpRemote => "remote-tcp",
            Entry::UnixRemote => "remote-unix",
            Entry::Socks4 => "socks4",
            Entry::Socks4a => "socks4a",
            Entry::Socks5Ip => "socks5-ip",
            Entry::Socks5Domain => "socks5-domain",
            Entry::HttpConnect => "http-connect",
            Entry::TcpRemoteV6 => "remote-tcp-v6literal",
            Entry::Socks5Ip6 => "socks5-ip6-v6literal",
            Entry::HttpConnectV6 => "http-connect-v6literal",
        }
    }
    pub fn family(self) -> &'static str {
        match self {
            Entry::TcpRemote | Entry::UnixRemote => "remote",
            Entry::Socks4 | Entry::Socks4a | Entry::Socks5Ip | Entry::Socks5Domain => "socks",
            Entry::HttpConnect => "http",
            Entry::TcpRemoteV6 => "remote-v6literal",
            Entry::Socks5Ip6 => "socks-v6literal",
            Entry::HttpConnectV6 => "http-v6literal",
        }
    }
    pub fn parse(s: &str) -> Option<Self> {
        Self::ALL.into_iter().chain(Self::V6).find(|e| e.name() == s)
    }
}

/// Does this machine (network namespace) have the IPv6 loopback address? Probed once; where it
/// does not, the IPv6-literal sub-matrix is skipped (and the evidence says so).
pub fn ipv6_loopback() -> bool {
    static PROBE: std::sync::OnceLock<bool> = std::sync::OnceLock::new();
    *PROBE.get_or_init(|| std::net::TcpListener::bind("[::1]:0").is_ok())
}

/// Dual-stack sub-matrix: the target is named by a host name that resolves to BOTH loopback
/// addresses (through a hosts file that exists only in a private mount namespace, see `c01.rs`).
/// The two names differ in the order of their lines in that file.
#[derive(Clone, Copy, Debug, PartialEq, Eq, Hash)]
pub enum DualName {
    /// `::1` line first, `127.0.0.1` line second
    V64,
    /// `127.0.0.1` line first, `::1` line second
    V46,
}

impl DualName {
    pub const ALL: [DualName; 2] = [DualName::V64, DualName::V46];
    pub fn host(self) -> &'static str {
        match self {
            DualName::V64 => "vdual64.test",
            DualName::V46 => "vdual46.test",
        }
    }
    pub fn parse(s: &str) -> Option<Self> {
        Self::ALL.into_iter().find(|e| e.host() == s)
    }
}

/// Dual-stack sub-matrix: the loopback address(es) the target listens on (one port number).
#[derive(Clone, Copy, Debug, PartialEq, Eq, Hash)]
pub enum Listen {
    V4,
    V6,
    Both,
}

impl Listen {
    pub const ALL: [Listen; 3] = [Listen::V4, Listen::V6, Listen::Both];
    pub fn name(self) -> &'static str {
        match self {
            Listen::V4 => "127.0.0.1",
            Listen::V6 => "[::1]",
            Listen::Both => "127.0.0.1+[::1]",
        }
    }
    pub fn parse(s: &str) -> Option<Self> {
        Self::ALL.into_iter().find(|e| e.name() == s)
    }
}

#[derive(Clone, Copy, Debug, PartialEq, Eq, Hash)]
pub struct Dual {
    pub name: DualName,
    pub listen: Listen,
}

/// the entry points that can name a target by host name
pub const DUAL_ENTRIES: [Entry; 4] = [Entry::TcpRemote, Entry::Socks5Domain, Entry::Socks4a, Entry::HttpConnect];

/// The hosts file of the private mount namespace: `localhost` stays what the rest of the matrix
/// assumes (127.0.0.1 only), the two test names get both loopback addresses.
pub fn dual_hosts_file() -> String {
    format!(
        "127.0.0.1 localhost\n::1 ip6-localhost ip6-loopback\n::1 {a}\n127.0.0.1 {a}\n127.0.0.1 {b}\n::1 {b}\n",
        a = DualName::V64.host(),
        b = DualName::V46.host()
    )
}

#[derive(Clone, Copy, Debug, PartialEq, Eq, Hash)]
pub enum Chunk {
    /// the whole payload in one `write_all`
    One,
    /// 1-byte writes for the first 64 bytes, the rest in one write
    Bytes64,
    /// 7-byte writes for the first 4200 bytes (600 writes), then 65521-byte writes
    Seven,
    /// 16 KiB writes from the first byte to the last, back to back (self-test of the slow-reader
    /// oracle only, not in `ALL`)
    K16,
    /// 16 KiB writes from the first byte to the last, `K16_PAUSE` apart (slow-reader sub-matrix
    /// only, not in `ALL`). The pause matters: the subject's bridges put EVERYTHING they can read
    /// at one go into one `Push` frame and its window counts frames, not bytes, so a writer that
    /// never pauses travels as a handful of frames of many megabytes each and no window ever fills
    /// (measured: 256 MiB written in under 3 s with nobody reading). Writes that are a little apart
    /// travel as about one frame each.
    K16Paced,
    /// "optimistic data" (with-request sub-matrix only, not in `ALL`; SOCKS entry points only): the
    /// local client does not wait for the proxy's reply before it sends. The first
    /// min(len, `WITH_REQUEST_HEAD`) payload bytes travel in the SAME `write_all` as the CONNECT
    /// request (SOCKS5: after the method negotiation), then the client reads the reply, then the
    /// rest of the payload follows in one write. (The target writes its payload in one write.)
    WithRequest,
}

/// `Chunk::K16Paced`: the pause after every write
pub const K16_PAUSE: Duration = Duration::from_millis(1);
/// `Chunk::WithRequest`: at most this many payload bytes travel with the request (request and
/// bytes together stay far below one loopback segment and below any 8 KiB read buffer, so the
/// proxy gets them with the very read that gets it the request)
pub const WITH_REQUEST_HEAD: usize = 1000;
/// `Chunk::WithRequest`: what every violation key of such a scenario ends in
pub const WITH_REQUEST_KEY_SUFFIX: &str = ".with-request";
/// `Chunk::WithRequest`: the entry points of the sub-matrix (a client of an HTTP proxy may not
/// send before the 2xx, and a plain remote has no request)
pub const WITH_REQUEST_ENTRIES: [Entry; 4] = [Entry::Socks4, Entry::Socks4a, Entry::Socks5Ip, Entry::Socks5Domain];
/// `Chunk::WithRequest`: the close orders of the sub-matrix (those in which the local client
/// writes its whole payload at once)
pub const WITH_REQUEST_ORDERS: [Order; 3] = [Order::ClientHalf, Order::ClientClose, Order::TargetClose];

impl Chunk {
    pub const ALL: [Chunk; 3] = [Chunk::One, Chunk::Bytes64, Chunk::Seven];
    pub fn name(self) -> &'static str {
        match self {
            Chunk::One => "one-write",
            Chunk::Bytes64 => "1-byte-x64",
            Chunk::Seven => "7-byte",
            Chunk::K16 => "16-KiB-writes",
            Chunk::K16Paced => "16-KiB-writes-1-ms-apart",
            Chunk::WithRequest => "first-bytes-in-the-same-write-as-the-proxy-request",
        }
    }
    pub fn parse(s: &str) -> Option<Self> {
        Self::ALL.into_iter().chain([Chunk::K16, Chunk::K16Paced, Chunk::WithRequest]).find(|e| e.name() == s)
    }
}

#[derive(Clone, Copy, Debug, PartialEq, Eq, Hash)]
pub enum Order {
    /// client writes everything, half-closes, keeps reading; the target sends the second half
    /// of its payload only after it has seen the EOF
    ClientHalf,
    /// mirror image
    TargetHalf,
    /// client writes everything, reads exactly what the target sends, closes both directions
    ClientClose,
    /// target writes everything, reads exactly what the client sends, closes both directions
    TargetClose,
    /// nobody listens on the target port
    Refuse,
    /// the target writes everything and half-closes; the client (which has written its payload)
    /// sees the payload and the EOF and KEEPS STREAMING filler bytes; the target reads the
    /// client's payload and some filler, then closes its connection completely. The local
    /// connection must then be closed or reset (the client's writes must start to fail).
    TargetHalfThenClose,
    /// mirror image: the client half-closes, the target keeps streaming, the client closes
    ClientHalfThenClose,
}

impl Order {
    /// the close orders of the complete product
    pub const ALL: [Order; 5] = [Order::ClientHalf, Order::TargetHalf, Order::ClientClose, Order::TargetClose, Order::Refuse];
    /// the close orders of the "close after half-close" sub-matrix (a restricted set of payload
    /// lengths, chunkings and connection counts, see `c01.rs::matrix`)
    pub const AFTER_HALF: [Order; 2] = [Order::TargetHalfThenClose, Order::ClientHalfThenClose];
    pub fn name(self) -> &'static str {
        match self {
            Order::ClientHalf => "client-half-close-first",
            Order::TargetHalf => "target-half-close-first",
            Order::ClientClose => "client-closes-both",
            Order::TargetClose => "target-closes-both",
            Order::Refuse => "target-refuses",
            Order::TargetHalfThenClose => "target-half-close-then-close",
            Order::ClientHalfThenClose => "client-half-close-then-close",
        }
    }
    pub fn parse(s: &str) -> Option<Self> {
        Self::ALL.into_iter().chain(Self::AFTER_HALF).find(|e| e.name() == s)
    }
    /// one end half-closes, the other keeps streaming, the first end closes completely
    pub fn after_half(self) -> bool {
        matches!(self, Order::TargetHalfThenClose | Order::ClientHalfThenClose)
    }
}

/// "close after half-close" orders: the end that half-closed closes completely once it has read
/// the other end's payload and this many filler bytes ...
pub const AFTER_HALF_FILLER_READ: usize = 16 * 1024;
/// ... or once this much time has passed since it had both half-closed and read the whole payload
/// (whichever comes first; neither is judged, they only decide WHEN the close happens)
pub const AFTER_HALF_LINGER: Duration = Duration::from_millis(300);
/// the streaming end writes filler in chunks of this size ...
pub const FILLER_CHUNK: usize = 4096;
/// ... with this pause between chunks (about 1.3 MB/s at most: a scenario that hangs until its
/// deadline moves tens of megabytes, not gigabytes)
pub const FILLER_PAUSE: Duration = Duration::from_millis(3);
/// period of the filler pattern
const FILLER_PERIOD: usize = 65536;

/// Filler of connection `conn` in direction `dir` (0 = client->target): the bytes from offset
/// `from` (inclusive) to `to` (exclusive) of an endless stream, periodic with `FILLER_PERIOD`,
/// generated like the payloads but from seeds no payload uses.
pub fn filler(conn: usize, dir: u8, from: usize, to: usize) -> Vec<u8> {
    let block = payload(FILLER_PERIOD, conn, dir + 2);
    (from..to).map(|k| block[k % FILLER_PERIOD]).collect()
}

/// Slow-reader sub-matrix: which end sits on its connection without reading while the other end
/// writes a payload that is larger than everything that can be buffered on the way.
#[derive(Clone, Copy, Debug, PartialEq, Eq, Hash)]
pub enum SlowDir {
    /// the target writes, the LOCAL CLIENT does not read for a while
    Download,
    /// the local client writes, the TARGET does not read for a while
    Upload,
}

impl SlowDir {
    pub const ALL: [SlowDir; 2] = [SlowDir::Download, SlowDir::Upload];
    pub fn name(self) -> &'static str {
        match self {
            SlowDir::Download => "download",
            SlowDir::Upload => "upload",
        }
    }
    /// what every violation key of such a scenario ends in
    pub fn key_suffix(self) -> &'static str {
        match self {
            SlowDir::Download => ".slow-reader-download",
            SlowDir::Upload => ".slow-reader-upload",
        }
    }
    pub fn parse(s: &str) -> Option<Self> {
        Self::ALL.into_iter().find(|e| e.name() == s)
    }
    /// the close orders in which the WRITING end of this direction ends the exchange
    /// (half-close after its payload / close of both directions)
    pub fn orders(self) -> [Order; 2] {
        match self {
            SlowDir::Download => [Order::TargetHalf, Order::TargetClose],
            SlowDir::Upload => [Order::ClientHalf, Order::ClientClose],
        }
    }
}

/// A point of the slow-reader sub-matrix: the reading end of `dir` waits `stall_s` seconds (from
/// the moment its connection exists) before its first read, then reads to the end like everywhere.
/// (The long payloads are `payload(len, conn, dir)` like all others: the same stream per (conn, dir)
/// cut at another length, so payloads that differ between connections at 4099 bytes differ here.)
#[derive(Clone, Copy, Debug, PartialEq, Eq, Hash)]
pub struct Slow {
    pub dir: SlowDir,
    pub stall_s: u64,
}

/// slow-reader sub-matrix: what a scenario is allowed on top of the stall (connection set-up, the
/// transfer once the reader reads, the close); the machine may be heavily loaded
pub const SLOW_TRANSFER_S: u64 = 60;
/// slow-reader sub-matrix: length of the payload of the direction that is NOT under test (both
/// halves of a half-responder are non-empty; far below any buffer)
pub const SLOW_REVERSE_LEN: usize = 4099;
/// slow-reader sub-matrix: every payload is written like this
pub const SLOW_CHUNK: Chunk = Chunk::K16Paced;

/// Odd-target-host sub-matrix ("odd target host next to a bystander"): one client, one server, one
/// SOCKS / HTTP entry point. Local connection X (the bystander) goes through the entry point to the
/// ordinary target and exchanges the first half of its payloads; then local connection Y asks the
/// same entry point for a target whose HOST is `TcpCase::odd` (port `ODD_PORT`); then X exchanges
/// the second halves and is closed in order; then a new local connection Z to the ordinary target
/// exchanges a payload and is closed in order. What every violation key of it contains:
pub const ODD_KEY: &str = "odd-target-host";
/// the port of the odd target (discard; nothing is expected to listen wherever the host may lead)
pub const ODD_PORT: u16 = 9;
/// the entry points at which a local application names the target host itself
pub const ODD_ENTRIES: [Entry; 3] = [Entry::Socks5Domain, Entry::Socks4a, Entry::HttpConnect];
/// payload length per direction of the bystander X (two halves) and of the later connection Z
pub const ODD_LEN: usize = 4099;
/// close order (of X and of Z), chunking and connections field of the sub-matrix
pub const ODD_ORDER: Order = Order::ClientHalf;
pub const ODD_CHUNK: Chunk = Chunk::One;

/// The alphabet of odd hosts, enumerated completely: (octets, what it is).
pub fn odd_hosts() -> Vec<(Vec<u8>, &'static str)> {
    vec![
        (b"[".to_vec(), "an opening bracket and nothing else"),
        (vec![0x5b, 0xc3, 0xa9], "an opening bracket and one two-octet UTF-8 character"),
        (b"]".to_vec(), "a closing bracket and nothing else"),
        (b"[]".to_vec(), "empty brackets"),
        (b"[::1".to_vec(), "an IPv6 literal whose closing bracket is missing"),
        (b"[[::1]]".to_vec(), "an IPv6 literal in two pairs of brackets"),
        (b"a b".to_vec(), "a name with a space in it"),
        (b".".to_vec(), "a single dot"),
        (vec![b'a'; 255], "255 x 'a' (one label, longer than any DNS label)"),
        (vec![0xff], "one octet that is not UTF-8"),
        (Vec::new(), "the empty host"),
    ]
}

/// Can a local application name this host at this entry point at all? SOCKS5: any 0..=255 octets.
/// SOCKS4a: NUL-terminated (the octet that is not UTF-8 is left to SOCKS5). HTTP CONNECT: the
/// authority is one token of the request line (no space; the non-UTF-8 octet is left out as well).
pub fn odd_expressible(entry: Entry, host: &[u8]) -> bool {
    match entry {
        Entry::Socks5Domain => host.len() <= 255,
        Entry::Socks4a => !host.contains(&0) && host != [0xff],
        Entry::HttpConnect => !host.iter().any(|b| *b == b' ' || *b == b'\r' || *b == b'\n' || *b == 0) && host != [0xff],
        _ => false,
    }
}

fn unhex(t: &str) -> Option<Vec<u8>> {
    if t.len() % 2 != 0 || !t.is_ascii() {
        return None;
    }
    (0..t.len()).step_by(2).map(|i| u8::from_str_radix(&t[i..i + 2], 16).ok()).collect()
}

#[derive(Clone, Debug, PartialEq, Eq, Hash)]
pub struct TcpCase {
    pub entry: Entry,
    pub c2t: usize,
    pub t2c: usize,
    pub chunk: Chunk,
    pub order: Order,
    pub conc: usize,
    /// Some: a point of the dual-stack sub-matrix (the target is named by a dual-stack host name)
    pub dual: Option<Dual>,
    /// Some: a point of the slow-reader sub-matrix (one end does not read for a while)
    pub slow: Option<Slow>,
    /// Some: a point of the odd-target-host sub-matrix (the octets of the odd host)
    pub odd: Option<Vec<u8>>,
}

impl TcpCase {
    /// the entry family as it appears inside violation keys
    pub fn family(&self) -> String {
        match self.dual {
            Some(_) => format!("dual-stack-name.{}", self.entry.family()),
            None => self.entry.family().to_string(),
        }
    }
    pub fn to_json(&self) -> Value {
        let mut v = self.to_json_plain();
        if let Some(d) = self.dual {
            v["dual_stack_name"] = json!(d.name.host());
            v["target_listens_on"] = json!(d.listen.name());
            v["hosts_file_of_the_private_mount_namespace"] = json!(dual_hosts_file());
        }
        if let Some(sl) = self.slow {
            v["slow_reader"] = json!(sl.dir.name());
            v["slow_reader_stall_s"] = json!(sl.stall_s);
            v["slow_reader_rule"] = json!(match sl.dir {
                SlowDir::Download => "every local connection waits slow_reader_stall_s seconds after the entry point granted the request before its first read, then reads to the end; the target writes its payload at once",
                SlowDir::Upload => "every target connection waits slow_reader_stall_s seconds after it was accepted before its first read, then reads to the end; the local client writes its payload at once",
            });
        }
        if let Some(h) = &self.odd {
            v["odd_target_host_hex"] = json!(vcommon::report::hex(h));
            v["odd_target_host_lossy"] = json!(String::from_utf8_lossy(h));
            v["odd_target_port"] = json!(ODD_PORT);
            v["odd_target_host_rule"] = json!("one client, one server, one entry point. Local connection X goes through the entry point to the ordinary target (which listens) and exchanges the first halves of the payloads (c2t_len / t2c_len octets per direction, cut in the middle); then local connection Y asks the same entry point for the host odd_target_host_hex, port odd_target_port: Y must get a failure reply or be closed before the deadline; then X exchanges the second halves, half-closes, sees the target's EOF: every octet equal end to end; then a new local connection Z to the ordinary target exchanges payload(len, 1, dir) and is closed the same way");
        }
        if self.chunk == Chunk::WithRequest {
            v["with_request_bytes"] = json!(self.with_request_head());
            v["with_request_rule"] = json!("every local client sends the first with_request_bytes = min(c2t_len, 1000) bytes of its payload in the SAME write_all as its SOCKS CONNECT request (SOCKS5: the method negotiation comes first, in lock-step), then reads the proxy's reply, then writes the rest of its payload in one write; the target writes its payload in one write");
        }
        v
    }
    fn to_json_plain(&self) -> Value {
        json!({
            "kind": "tcp", "entry": self.entry.name(), "c2t_len": self.c2t, "t2c_len": self.t2c,
            "chunking": self.chunk.name(), "close_order": self.order.name(), "connections": self.conc,
            "target_listens_on": if self.entry.v6literal() { "[::1]" } else { "127.0.0.1" },
            "payload_rule": "payload(len, conn, dir): len 1 -> fixed table byte; else xorshift64* stream seeded by (conn, dir); see c01_tcp.rs::payload",
            "c2t_head_hex": vcommon::report::hex(&payload(self.c2t, 0, 0)[..self.c2t.min(16)]),
            "t2c_head_hex": vcommon::report::hex(&payload(self.t2c, 0, 1)[..self.t2c.min(16)]),
        })
    }
    pub fn from_json(v: &Value) -> Option<Self> {
        let dual = match v.get("dual_stack_name").and_then(Value::as_str) {
            Some(n) => Some(Dual { name: DualName::parse(n)?, listen: Listen::parse(v["target_listens_on"].as_str()?)? }),
            None => None,
        };
        let slow = match v.get("slow_reader").and_then(Value::as_str) {
            Some(d) => Some(Slow { dir: SlowDir::parse(d)?, stall_s: v["slow_reader_stall_s"].as_u64()? }),
            None => None,
        };
        let odd = match v.get("odd_target_host_hex").and_then(Value::as_str) {
            Some(h) => Some(unhex(h)?),
            None => None,
        };
        Some(Self {
            dual,
            slow,
            odd,
            entry: Entry::parse(v["entry"].as_str()?)?,
            c2t: usize::try_from(v["c2t_len"].as_u64()?).ok()?,
            t2c: usize::try_from(v["t2c_len"].as_u64()?).ok()?,
            chunk: Chunk::parse(v["chunking"].as_str()?)?,
            order: Order::parse(v["close_order"].as_str()?)?,
            conc: usize::try_from(v["connections"].as_u64()?).ok()?,
        })
    }
    pub fn label(&self) -> String {
        let dual = self.dual.map_or_else(String::new, |d| format!(" dual-stack-name {} target-on {}", d.name.host(), d.listen.name()));
        let slow = self.slow.map_or_else(String::new, |s| format!(" slow-reader-{} stall={}s", s.dir.name(), s.stall_s));
        let slow = self.odd.as_ref().map_or(slow, |h| format!(" {ODD_KEY} {:?} (hex {}) port {ODD_PORT} next to a bystander", String::from_utf8_lossy(&h[..h.len().min(24)]), vcommon::report::hex(h)));
        format!("tcp {}{dual}{slow} c2t={} t2c={} {} {} x{}", self.entry.name(), self.c2t, self.t2c, self.chunk.name(), self.order.name(), self.conc)
    }
    /// The deadline of one execution: slow-reader scenarios get the stall and `SLOW_TRANSFER_S`
    /// whatever the deadline of the other scenarios is.
    pub fn deadline_s(&self, base: u64) -> u64 {
        self.slow.map_or(base, |s| base.max(s.stall_s + SLOW_TRANSFER_S))
    }
    /// `Chunk::WithRequest`: how many payload bytes of every local connection travel with the request
    pub fn with_request_head(&self) -> usize {
        if self.chunk == Chunk::WithRequest { self.c2t.min(WITH_REQUEST_HEAD) } else { 0 }
    }
    /// Is this a point of the with-request sub-matrix as `c01.rs::with_request_matrix` builds them?
    fn with_request_well_formed(&self) -> bool {
        self.chunk != Chunk::WithRequest || (WITH_REQUEST_ENTRIES.contains(&self.entry) && WITH_REQUEST_ORDERS.contains(&self.order) && self.c2t > 0 && self.dual.is_none() && self.slow.is_none())
    }
    /// Is this a point of the odd-target-host sub-matrix as `c01.rs::odd_matrix` builds them?
    fn odd_well_formed(&self) -> bool {
        self.odd.as_ref().is_none_or(|h| ODD_ENTRIES.contains(&self.entry) && odd_expressible(self.entry, h) && self.order == ODD_ORDER && self.chunk == ODD_CHUNK && self.conc == 1 && self.dual.is_none() && self.slow.is_none() && self.c2t >= 2 && self.t2c >= 2)
    }
    /// Is this a point of the slow-reader sub-matrix as `c01.rs::slow_matrix` builds them?
    fn slow_well_formed(&self) -> bool {
        self.slow.is_none_or(|s| s.dir.orders().contains(&self.order) && self.dual.is_none() && !self.entry.v6literal())
    }
}

/// Deterministic payload of connection `conn` in direction `dir` (0 = client->target).
/// Arbitrary bytes (all 256 values occur); 1-byte payloads are distinct per (conn, dir).
pub fn payload(len: usize, conn: usize, dir: u8) -> Vec<u8> {
    const ONE: [[u8; 2]; 8] = [[0x00, 0xff], [0x0a, 0x0d], [0x05, 0x04], [0x80, 0x7f], [0x20, 0x3a], [0x01, 0xfe], [0x48, 0x43], [0x11, 0x13]];
    if len == 1 {
        return vec![ONE[conn % 8][usize::from(dir)]];
    }
    let mut x: u64 = 0x9e37_79b9_7f4a_7c15 ^ ((conn as u64 + 1) << 32) ^ (u64::from(dir) + 1).wrapping_mul(0xd1b5_4a32_d192_ed03);
    let mut v = Vec::with_capacity(len + 8);
    while v.len() < len {
        x ^= x >> 12;
        x ^= x << 25;
        x ^= x >> 27;
        v.extend_from_slice(&x.wrapping_mul(0x2545_f491_4f6c_dd1d).to_le_bytes());
    }
    v.truncate(len);
    v
}

fn fnv(b: &[u8]) -> u64 {
    b.iter().fold(0xcbf2_9ce4_8422_2325u64, |h, x| (h ^ u64::from(*x)).wrapping_mul(0x0100_0000_01b3))
}

#[derive(Clone, Debug)]
pub struct Failure {
    pub key: String,
    pub desc: String,
    /// the failure is "something did not happen before the deadline" (or could, in principle, be
    /// caused by another process on this machine): it counts only when it shows again with the
    /// scenario run alone
    pub deadline: bool,
}

#[derive(Default, Clone, Debug)]
pub struct TcpStats {
    pub bytes_verified: u64,
    pub conns_verified: u64,
    pub halfclose_eof_seen: u64,
    pub end_eof: u64,
    pub end_reset: u64,
    pub refuse_granted_then_closed: u64,
    pub refuse_end_eof: u64,
    pub refuse_end_reset: u64,
    pub refuse_refused_reply: u64,
    pub refuse_closed_before_reply: u64,
    /// "close after half-close" orders: connections whose still-streaming end was disconnected
    /// (its writes began to fail) after the other end, which had half-closed first, closed
    pub after_halfclose_closed: u64,
    /// ... of which: the closing end had read filler bytes (sent after the streaming end saw the
    /// half-close) before it closed: the reverse direction demonstrably outlived the half-close
    pub after_halfclose_filler_read: u64,
    /// ... how the streaming end's writes ended, by `std::io::ErrorKind` (recorded, not judged)
    pub after_halfclose_end_kinds: std::collections::BTreeMap<String, u64>,
    /// slow-reader sub-matrix: scenarios whose data was verified AND in which, at the first read of
    /// every slow reader, every writing end still had payload bytes to write (everything that can
    /// buffer on the way was full: the writers were held back by the reader and by nothing else)
    pub slow_reader_backed_up: u64,
    /// ... least / most bytes one writing end had got rid of when a slow reader began to read
    /// (0 / 0: no slow-reader scenario yet)
    pub slow_reader_written_at_first_read_min: u64,
    pub slow_reader_written_at_first_read_max: u64,
    /// odd-target-host sub-matrix: scenarios whose bystander X went through both halves and its close, every octet equal
    pub odd_bystander_completed: u64,
    /// ... whose later connection Z was granted, exchanged its payload and was closed in order
    pub odd_later_connection_worked: u64,
    /// ... how the request for the odd host ended (recorded, not judged beyond "not left hanging")
    pub odd_request_ends: std::collections::BTreeMap<String, u64>,
}

pub struct TcpOutcome {
    pub failures: Vec<Failure>,
    /// deterministic summary (compared between the two runs of a replay)
    pub obs: Value,
    /// the subject lost the race for a leased port: not a verdict, run the scenario again
    pub port_race: bool,
    pub stats: TcpStats,
    pub wall: Duration,
    /// dual-stack sub-matrix: the direct control connection to (name, port) did not work either,
    /// so there is nothing the tunnel could be compared with (the reason)
    pub vacuous: Option<String>,
}

#[derive(Clone, Copy, Debug, PartialEq, Eq)]
enum Role {
    /// write all, shutdown(write), read to the end
    HalfCloser,
    /// write first half, read to the end, then write the second half, shutdown(write)
    HalfResponder,
    /// write all, read exactly `expect` bytes, close
    Closer,
    /// write all, read to the end, close
    CloseResponder,
    /// write (errors allowed), read to the end
    RefuseProbe,
    /// write all, shutdown(write), read `expect` bytes and then up to `AFTER_HALF_FILLER_READ`
    /// more (for at most `AFTER_HALF_LINGER`), close both directions
    HalfThenCloser,
    /// write all, read to the end, then write filler for as long as writing succeeds
    Streamer,
}

#[derive(Default, Debug)]
struct Side {
    connected: bool,
    connect_err: Option<(String, bool)>,
    shake: Option<Shake>,
    rx: Vec<u8>,
    rx_end: Option<String>,
    tx_bytes: usize,
    tx_done: bool,
    tx_err: Option<String>,
    /// length of `rx` at the moment the second half was started (HalfResponder)
    second_half_at: Option<usize>,
    finished: bool,
    /// Streamer: the whole payload was written (what follows is filler)
    payload_written: bool,
    /// Streamer: filler bytes whose write succeeded
    filler_tx: usize,
    /// slow reader: `tx_bytes` of every writing end of the other side at the moment of the first read
    stall_peer_tx: Option<Vec<usize>>,
}

type Shared = Arc<Mutex<Side>>;

fn lock(s: &Shared) -> std::sync::MutexGuard<'_, Side> {
    s.lock().unwrap_or_else(std::sync::PoisonError::into_inner)
}

/// `base`: payload bytes of this end that are on their way already (counted in `tx_bytes`).
async fn write_chunked<W: AsyncWrite + Unpin>(w: &mut W, data: &[u8], chunk: Chunk, st: &Shared, base: usize) -> std::io::Result<()> {
    let mut at = 0usize;
    let small_until = match chunk {
        Chunk::One | Chunk::K16 | Chunk::K16Paced | Chunk::WithRequest => 0,
        Chunk::Bytes64 => data.len().min(64),
        Chunk::Seven => data.len().min(4200),
    };
    let small = if chunk == Chunk::Seven { 7 } else { 1 };
    while at < small_until {
        let end = (at + small).min(small_until);
        w.write_all(&data[at..end]).await?;
        w.flush().await?;
        at = end;
        lock(st).tx_bytes = base + at;
        tokio::task::yield_now().await;
    }
    let big = match chunk {
        Chunk::Seven => 65521,
        Chunk::K16 | Chunk::K16Paced => 16 * 1024,
        Chunk::One | Chunk::Bytes64 | Chunk::WithRequest => usize::MAX,
    };
    while at < data.len() {
        let end = at.saturating_add(big).min(data.len());
        w.write_all(&data[at..end]).await?;
        at = end;
        lock(st).tx_bytes = base + at;
        if chunk == Chunk::K16Paced {
            tokio::time::sleep(K16_PAUSE).await;
        }
    }
    w.flush().await?;
    Ok(())
}

async fn read_into<R: AsyncRead + Unpin>(r: &mut R, st: &Shared, limit: Option<usize>) -> String {
    let mut buf = vec![0u8; 65536];
    loop {
        let want = match limit {
            Some(l) => {
                let have = lock(st).rx.len();
                if have >= l {
                    return "stopped".into();
                }
                buf.len().min(l - have)
            }
            None => buf.len(),
        };
        match r.read(&mut buf[..want]).await {
            Ok(0) => return "eof".into(),
            Ok(n) => lock(st).rx.extend_from_slice(&buf[..n]),
            Err(e) => return format!("err:{:?}", e.kind()),
        }
    }
}

/// HalfThenCloser: read the other end's payload (`expect` bytes, however long that takes), then
/// filler until `AFTER_HALF_FILLER_READ` bytes of it have been read or `AFTER_HALF_LINGER` has
/// passed since this end had both read the payload and finished its own half-close.
async fn read_then_linger<R: AsyncRead + Unpin>(r: &mut R, st: &Shared, expect: usize) -> String {
    let mut buf = vec![0u8; 65536];
    let stop_at = expect + AFTER_HALF_FILLER_READ;
    let mut since: Option<Instant> = None;
    loop {
        let (have, half_closed) = {
            let g = lock(st);
            (g.rx.len(), g.tx_done || g.tx_err.is_some())
        };
        if have >= stop_at {
            return "stopped".into();
        }
        if have >= expect && half_closed && since.get_or_insert_with(Instant::now).elapsed() >= AFTER_HALF_LINGER {
            return "stopped".into();
        }
        let want = buf.len().min(stop_at - have);
        // (`read` is cancel-safe: a read that is given up has consumed nothing)
        match tokio::time::timeout(Duration::from_millis(20), r.read(&mut buf[..want])).await {
            Err(_) => {}
            Ok(Ok(0)) => return "eof".into(),
            Ok(Ok(n)) => lock(st).rx.extend_from_slice(&buf[..n]),
            Ok(Err(e)) => return format!("err:{:?}", e.kind()),
        }
    }
}

/// `stall`: this end is a slow reader. It does not read for that long (its writer is not held up),
/// then notes how far the writing ends of the other side (their states) have got, and reads.
/// `sent`: the first `sent` bytes of `data` were written before (with the proxy request,
/// `Chunk::WithRequest`; only for the roles that write their whole payload at once); 0 everywhere else.
#[allow(clippy::too_many_arguments)]
async fn run_side(io: BoxIo, role: Role, data: Vec<u8>, sent: usize, expect: usize, chunk: Chunk, st: Shared, conn: usize, dir: u8, stall: Option<(Duration, Vec<Shared>)>) {
    let sent = sent.min(data.len());
    if sent > 0 {
        lock(&st).tx_bytes = sent;
    }
    let (mut rd, mut wr) = tokio::io::split(io);
    let (eof_tx, eof_rx) = oneshot::channel::<()>();
    let st_r = st.clone();
    let reader = async move {
        if let Some((pause, writers)) = stall {
            tokio::time::sleep(pause).await;
            let written: Vec<usize> = writers.iter().map(|w| lock(w).tx_bytes).collect();
            lock(&st_r).stall_peer_tx = Some(written);
        }
        let limit = if role == Role::Closer { Some(expect) } else { None };
        let end = if role == Role::HalfThenCloser { read_then_linger(&mut rd, &st_r, expect).await } else { read_into(&mut rd, &st_r, limit).await };
        lock(&st_r).rx_end = Some(end);
        let _ = eof_tx.send(());
        rd
    };
    let st_w = st.clone();
    let writer = async move {
        let res: std::io::Result<()> = async {
            match role {
                Role::HalfResponder => {
                    let cut = data.len() / 2;
                    write_chunked(&mut wr, &data[..cut], chunk, &st_w, 0).await?;
                    let _ = eof_rx.await;
                    {
                        let mut g = lock(&st_w);
                        g.second_half_at = Some(g.rx.len());
                    }
                    write_chunked(&mut wr, &data[cut..], chunk, &st_w, cut).await?;
                    {
                        let mut g = lock(&st_w);
                        g.tx_bytes = data.len();
                    }
                    wr.shutdown().await?;
                }
                Role::HalfCloser | Role::HalfThenCloser => {
                    write_chunked(&mut wr, &data[sent..], chunk, &st_w, sent).await?;
                    wr.shutdown().await?;
                }
                Role::Streamer => {
                    write_chunked(&mut wr, &data[sent..], chunk, &st_w, sent).await?;
                    lock(&st_w).payload_written = true;
                    // the other end's payload and its half-close (or whatever ended the reading)
                    let _ = eof_rx.await;
                    {
                        let mut g = lock(&st_w);
                        g.second_half_at = Some(g.rx.len());
                    }
                    // keep sending until the connection is taken away (the only way out)
                    let block = filler(conn, dir, 0, FILLER_PERIOD);
                    let mut at = 0usize;
                    loop {
                        let from = at % FILLER_PERIOD;
                        let to = (from + FILLER_CHUNK).min(FILLER_PERIOD);
                        wr.write_all(&block[from..to]).await?;
                        wr.flush().await?;
                        at += to - from;
                        lock(&st_w).filler_tx = at;
                        tokio::time::sleep(FILLER_PAUSE).await;
                    }
                }
                Role::Closer | Role::CloseResponder | Role::RefuseProbe => {
                    write_chunked(&mut wr, &data[sent..], chunk, &st_w, sent).await?;
                }
            }
            Ok(())
        }
        .await;
        let mut g = lock(&st_w);
        match res {
            Ok(()) => g.tx_done = true,
            Err(e) => g.tx_err = Some(format!("{:?}", e.kind())),
        }
        drop(g);
        wr
    };
    if role == Role::RefuseProbe {
        // the writer may legitimately block or fail; the verdict only needs the reader
        tokio::pin!(reader);
        tokio::pin!(writer);
        let mut wdone = false;
        loop {
            tokio::select! {
                biased;
                _ = &mut reader => break,
                _ = &mut writer, if !wdone => wdone = true,
            }
        }
    } else {
        let (rd, wr) = tokio::join!(reader, writer);
        // both directions are closed here, at once
        drop(rd);
        drop(wr);
    }
    lock(&st).finished = true;
}

/// Faults of the built-in control relay (used only by the self-test of the oracle).
#[derive(Clone, Copy, Debug, PartialEq, Eq)]
pub enum Fault {
    Faithful,
    FlipFirstByte,
    CloseBothOnHalfClose,
    /// relays faithfully, half-closes included, but when the target connection is gone it goes
    /// on reading (and discarding) what the local connection sends instead of closing it
    SwallowWhenTargetGone,
    /// relays through a queue of `LOSSY_QUEUE` reads per direction; when a queue is full (the
    /// receiving end does not read and every buffer behind the relay is full) it stops reading that
    /// direction, delivers what is queued and closes: the stream is cut short under back-pressure
    TruncateWhenBackedUp,
}

/// `Fault::TruncateWhenBackedUp`: reads (of at most 8 KiB) one direction of the relay may hold
const LOSSY_QUEUE: usize = 64;

/// One direction of `Fault::TruncateWhenBackedUp`.
async fn pump_lossy<R: AsyncRead + Unpin, W: AsyncWrite + Unpin>(mut r: R, mut w: W) {
    let (tx, mut rx) = mpsc::channel::<Vec<u8>>(LOSSY_QUEUE);
    let fill = async move {
        let mut buf = vec![0u8; 8192];
        loop {
            match r.read(&mut buf).await {
                Ok(0) | Err(_) => break,
                Ok(n) => {
                    if tx.try_send(buf[..n].to_vec()).is_err() {
                        break;
                    }
                }
            }
        }
    };
    let drain = async move {
        while let Some(b) = rx.recv().await {
            if w.write_all(&b).await.is_err() {
                return;
            }
        }
        let _ = w.shutdown().await;
    };
    tokio::join!(fill, drain);
}

pub enum Mode<'a> {
    Penguin(&'a Env),
    Control(Fault),
}

async fn control_relay(l: TcpListener, target: SocketAddr, fault: Fault) {
    loop {
        let Ok((mut a, _)) = l.accept().await else { return };
        tokio::spawn(async move {
            let Ok(mut b) = TcpStream::connect(target).await else { return };
            match fault {
                Fault::Faithful => {
                    let _ = tokio::io::copy_bidirectional(&mut a, &mut b).await;
                }
                Fault::FlipFirstByte => {
                    let (mut ar, mut aw) = a.split();
                    let (mut br, mut bw) = b.split();
                    let up = async {
                        let mut first = true;
                        let mut buf = vec![0u8; 8192];
                        loop {
                            match ar.read(&mut buf).await {
                                Ok(0) | Err(_) => break,
                                Ok(n) => {
                                    if first {
                                        buf[0] ^= 0x40;
                                        first = false;
                                    }
                                    if bw.write_all(&buf[..n]).await.is_err() {
                                        break;
                                    }
                                }
                            }
                        }
                        let _ = bw.shutdown().await;
                    };
                    let down = async {
                        let _ = tokio::io::copy(&mut br, &mut aw).await;
                        let _ = aw.shutdown().await;
                    };
                    tokio::join!(up, down);
                }
                Fault::SwallowWhenTargetGone => {
                    let (mut ar, mut aw) = a.split();
                    let (mut br, mut bw) = b.split();
                    let up = async {
                        let mut gone = false;
                        let mut buf = vec![0u8; 8192];
                        loop {
                            match ar.read(&mut buf).await {
                                Ok(0) | Err(_) => break,
                                Ok(n) => gone = gone || bw.write_all(&buf[..n]).await.is_err(),
                            }
                        }
                        if !gone {
                            let _ = bw.shutdown().await;
                        }
                    };
                    let down = async {
                        let _ = tokio::io::copy(&mut br, &mut aw).await;
                        let _ = aw.shutdown().await;
                    };
                    tokio::join!(up, down);
                }
                Fault::TruncateWhenBackedUp => {
                    let (ar, aw) = a.split();
                    let (br, bw) = b.split();
                    tokio::join!(pump_lossy(ar, bw), pump_lossy(br, aw));
                }
                Fault::CloseBothOnHalfClose => {
                    let (mut ar, mut aw) = a.split();
                    let (mut br, mut bw) = b.split();
                    tokio::select! {
                        _ = tokio::io::copy(&mut ar, &mut bw) => {}
                        _ = tokio::io::copy(&mut br, &mut aw) => {}
                    }
                    // first EOF in either direction: drop everything
                }
            }
        });
    }
}

struct EntryPoint {
    tcp: Option<SocketAddr>,
    unix: Option<std::path::PathBuf>,
}

#[allow(clippy::too_many_arguments)]
async fn client_conn(i: usize, case: TcpCase, ep: Arc<EntryPoint>, target: SocketAddr, domain: String, client_done: Arc<AtomicBool>, st: Shared, deadline: Instant, done: mpsc::UnboundedSender<()>, stall: Option<(Duration, Vec<Shared>)>) {
    let io: Result<BoxIo, ConnectFail> = if let Some(p) = &ep.unix {
        env::connect_unix_entry(p, &client_done, deadline).await.map(|s| Box::new(s) as BoxIo)
    } else {
        env::connect_tcp_entry(ep.tcp.expect("entry address"), &client_done, deadline).await.map(|s| Box::new(s) as BoxIo)
    };
    let mut io = match io {
        Ok(io) => io,
        Err(e) => {
            let dl = matches!(e, ConnectFail::Deadline(_));
            lock(&st).connect_err = Some((format!("{e:?}"), dl));
            let _ = done.send(());
            return;
        }
    };
    let ip = Ipv4Addr::LOCALHOST;
    let port = target.port();
    // `Chunk::WithRequest`: the bytes that do not wait for the proxy's reply
    let c2t_payload = payload(case.c2t, i, 0);
    let head = case.with_request_head();
    let shake = match case.entry {
        Entry::Socks4 if head > 0 => proto::socks4_connect_with(&mut io, ip, port, None, &c2t_payload[..head]).await,
        Entry::Socks4a if head > 0 => proto::socks4_connect_with(&mut io, ip, port, Some(&domain), &c2t_payload[..head]).await,
        Entry::Socks5Ip if head > 0 => proto::socks5_connect_with(&mut io, IpAddr::V4(ip), port, None, &c2t_payload[..head]).await,
        Entry::Socks5Domain if head > 0 => proto::socks5_connect_with(&mut io, IpAddr::V4(ip), port, Some(&domain), &c2t_payload[..head]).await,
        Entry::TcpRemote | Entry::UnixRemote | Entry::TcpRemoteV6 => Shake::Granted,
        Entry::Socks4 => proto::socks4_connect(&mut io, ip, port, None).await,
        Entry::Socks4a => proto::socks4_connect(&mut io, ip, port, Some(&domain)).await,
        Entry::Socks5Ip => proto::socks5_connect(&mut io, IpAddr::V4(ip), port, None).await,
        Entry::Socks5Domain => proto::socks5_connect(&mut io, IpAddr::V4(ip), port, Some(&domain)).await,
        Entry::HttpConnect => proto::http_connect(&mut io, &format!("{domain}:{port}")).await,
        // the address the target really listens on ([::1]), as ATYP 4 / as a bracketed literal (RFC 3986 3.2.2, RFC 9110 7.2)
        Entry::Socks5Ip6 => proto::socks5_connect(&mut io, target.ip(), port, None).await,
        Entry::HttpConnectV6 => proto::http_connect(&mut io, &format!("[{}]:{port}", target.ip())).await,
    };
    let granted = shake == Shake::Granted;
    {
        let mut g = lock(&st);
        g.shake = Some(shake);
        g.connected = granted;
    }
    if granted {
        let role = match case.order {
            Order::ClientHalf => Role::HalfCloser,
            Order::TargetHalf => Role::HalfResponder,
            Order::ClientClose => Role::Closer,
            Order::TargetClose => Role::CloseResponder,
            Order::Refuse => Role::RefuseProbe,
            Order::TargetHalfThenClose => Role::Streamer,
            Order::ClientHalfThenClose => Role::HalfThenCloser,
        };
        run_side(io, role, c2t_payload, head, case.t2c, case.chunk, st.clone(), i, 0, stall).await;
    }
    let _ = done.send(());
}

/// Dual-stack sub-matrix, the differential oracle: what does a direct connection to (name, port)
/// do, made by this very process right now? One byte each way. Ok((the address that was reached,
/// what the name resolved to)) or Err(why it did not work: the matrix point is vacuous).
async fn dual_control(name: &str, port: u16, listeners: &[TcpListener]) -> Result<(SocketAddr, Vec<SocketAddr>), String> {
    const LIMIT: Duration = Duration::from_secs(5);
    let resolved: Vec<SocketAddr> = match tokio::time::timeout(LIMIT, tokio::net::lookup_host((name, port))).await {
        Ok(Ok(it)) => it.collect(),
        Ok(Err(e)) => return Err(format!("{name} does not resolve: {e}")),
        Err(_) => return Err(format!("resolving {name} took more than {LIMIT:?}")),
    };
    let server = async {
        let accepted = match listeners {
            [a] => a.accept().await,
            [a, b] => tokio::select! { r = a.accept() => r, r = b.accept() => r },
            _ => return,
        };
        let Ok((mut s, _)) = accepted else { return };
        let mut b = [0u8; 1];
        if s.read_exact(&mut b).await.is_ok() && s.write_all(&[!b[0]]).await.is_ok() {
            // until the other end closes
            let _ = s.read(&mut b).await;
        }
    };
    let client = async {
        let mut s = match tokio::time::timeout(LIMIT, TcpStream::connect((name, port))).await {
            Ok(Ok(s)) => s,
            Ok(Err(e)) => return Err(format!("a direct connection to {name}:{port} fails: {e}")),
            Err(_) => return Err(format!("a direct connection to {name}:{port} was not established within {LIMIT:?}")),
        };
        let peer = s.peer_addr().map_err(|e| format!("peer_addr: {e}"))?;
        let mut b = [0u8; 1];
        match tokio::time::timeout(LIMIT, async {
            s.write_all(&[0xC7]).await?;
            s.read_exact(&mut b).await
        })
        .await
        {
            Ok(Ok(_)) if b[0] == !0xC7u8 => Ok(peer),
            Ok(Ok(_)) => Err(format!("a direct connection to {name}:{port} reached {peer}, which is not the target of this scenario (it answered {:02x})", b[0])),
            Ok(Err(e)) => Err(format!("a direct connection to {name}:{port} reached {peer} but the byte exchange failed: {e}")),
            Err(_) => Err(format!("a direct connection to {name}:{port} reached {peer} but the byte exchange took more than {LIMIT:?}")),
        }
    };
    tokio::pin!(server);
    tokio::pin!(client);
    let mut sdone = false;
    let r = loop {
        tokio::select! {
            r = &mut client => break r,
            () = &mut server, if !sdone => sdone = true,
        }
    };
    r.map(|peer| (peer, resolved))
}

/// Run one matrix point once. `deadline_s` bounds the whole scenario (every wait inside it).
pub async fn run_tcp(mode: &Mode<'_>, case: &TcpCase, deadline_s: u64, uniq: u64) -> TcpOutcome {
    let t0 = Instant::now();
    if case.odd.is_some() {
        return run_odd(mode, case, deadline_s, t0).await;
    }
    let deadline = t0 + Duration::from_secs(deadline_s);
    let mut failures: Vec<Failure> = Vec::new();
    let mut stats = TcpStats::default();
    let fam_s = case.family();
    let fam = fam_s.as_str();
    let machinery = |m: String| TcpOutcome {
        failures: vec![Failure { key: "machinery".into(), desc: m, deadline: false }],
        obs: json!({"machinery": true}),
        port_race: false,
        stats: TcpStats::default(),
        wall: t0.elapsed(),
        vacuous: None,
    };

    // ---- target
    let refuse = case.order == Order::Refuse;
    let mut refusing = None;
    let mut listeners: Vec<TcpListener> = Vec::new();
    let target: SocketAddr = if refuse {
        let r = env::refusing_port();
        let a = r.addr;
        refusing = Some(r);
        a
    } else if let Some(d) = case.dual {
        // one port number, on the loopback address(es) of this matrix point
        let mut first = None;
        for attempt in 0..50 {
            listeners.clear();
            let l = match TcpListener::bind(if d.listen == Listen::V6 { "[::1]:0" } else { "127.0.0.1:0" }).await {
                Ok(l) => l,
                Err(e) => return machinery(format!("bind target: {e}")),
            };
            let a = l.local_addr().expect("target addr");
            listeners.push(l);
            if d.listen == Listen::Both {
                match TcpListener::bind(("::1", a.port())).await {
                    Ok(l6) => listeners.push(l6),
                    Err(_) if attempt < 49 => continue,
                    Err(e) => return machinery(format!("bind target on [::1]:{}: {e}", a.port())),
                }
            }
            first = Some(a);
            break;
        }
        first.expect("target addr")
    } else {
        let l = match TcpListener::bind(if case.entry.v6literal() { "[::1]:0" } else { "127.0.0.1:0" }).await {
            Ok(l) => l,
            Err(e) => return machinery(format!("bind target: {e}")),
        };
        let a = l.local_addr().expect("target addr");
        listeners.push(l);
        a
    };
    if (case.entry.v6literal() || case.dual.is_some()) && refuse {
        return machinery(format!("{}: not a point of the matrix", case.label()));
    }
    if case.dual.is_some() && (!DUAL_ENTRIES.contains(&case.entry) || case.conc != 1) {
        return machinery(format!("{}: not a point of the matrix", case.label()));
    }
    if !case.slow_well_formed() || !case.with_request_well_formed() || (case.chunk == Chunk::WithRequest && matches!(mode, Mode::Control(_))) {
        return machinery(format!("{}: not a point of the matrix", case.label()));
    }

    // ---- dual-stack sub-matrix: the reference behaviour is observed, not written down. A direct
    // connection to (name, port), made by this process (the server runs in it), one byte each way.
    let mut control_note = String::new();
    let mut control_obs = Value::Null;
    if let Some(d) = case.dual {
        match dual_control(d.name.host(), target.port(), &listeners).await {
            Ok((peer, resolved)) => {
                control_note = format!("; {} resolves to {resolved:?} here and a direct TcpStream::connect((\"{}\", {})) made by this process just before reached the target at {peer} and exchanged a byte in each direction", d.name.host(), d.name.host(), target.port());
                control_obs = json!({"direct_connection": "works", "reached": peer.ip().to_string(), "resolved": resolved.iter().map(|a| a.ip().to_string()).collect::<Vec<_>>()});
            }
            Err(why) => {
                return TcpOutcome {
                    failures: Vec::new(),
                    obs: json!({"vacuous": true, "direct_connection": why}),
                    port_race: false,
                    stats: TcpStats::default(),
                    wall: t0.elapsed(),
                    vacuous: Some(why),
                };
            }
        }
    }

    // ---- entry point + subject
    let mut lease = None;
    let mut tunnel: Option<Tunnel> = None;
    let mut control_task = None;
    let mut unix_path = None;
    let domain;
    let ep = match mode {
        Mode::Control(fault) => {
            domain = "127.0.0.1".to_string();
            let l = match TcpListener::bind("127.0.0.1:0").await {
                Ok(l) => l,
                Err(e) => return machinery(format!("bind control relay: {e}")),
            };
            let a = l.local_addr().expect("relay addr");
            control_task = Some(tokio::spawn(control_relay(l, target, *fault)));
            EntryPoint { tcp: Some(a), unix: None }
        }
        Mode::Penguin(envr) => {
            domain = case.dual.map_or_else(|| envr.domain.clone(), |d| d.name.host().to_string());
            let (remote, ep) = match case.entry {
                Entry::UnixRemote => {
                    let p = envr.tmp.join(format!("e{uniq}.sock"));
                    let spec = format!("[unix:{}]:127.0.0.1:{}", p.display(), target.port());
                    unix_path = Some(p.clone());
                    (spec, EntryPoint { tcp: None, unix: Some(p) })
                }
                other => {
                    let l = env::lease_port(false);
                    let lp = l.port;
                    lease = Some(l);
                    let spec = match other {
                        Entry::TcpRemote if case.dual.is_some() => format!("127.0.0.1:{lp}:{domain}:{}", target.port()),
                        Entry::TcpRemote => format!("127.0.0.1:{lp}:127.0.0.1:{}", target.port()),
                        Entry::TcpRemoteV6 => format!("127.0.0.1:{lp}:[{}]:{}", target.ip(), target.port()),
                        Entry::HttpConnect | Entry::HttpConnectV6 => format!("127.0.0.1:{lp}:http"),
                        _ => format!("127.0.0.1:{lp}:socks"),
                    };
                    (spec, EntryPoint { tcp: Some(SocketAddr::from(([127, 0, 0, 1], lp))), unix: None })
                }
            };
            match env::start_tunnel(envr, &[remote]).await {
                Ok(t) => tunnel = Some(t),
                Err(e) => return machinery(e),
            }
            ep
        }
    };
    let ep = Arc::new(ep);
    let client_done = tunnel.as_ref().map_or_else(|| Arc::new(AtomicBool::new(false)), |t| t.client_done.clone());

    // ---- harness actors
    let n = case.conc;
    let cst: Vec<Shared> = (0..n).map(|_| Arc::new(Mutex::new(Side::default()))).collect();
    let tst: Vec<Shared> = (0..n).map(|_| Arc::new(Mutex::new(Side::default()))).collect();
    let (done_tx, mut done_rx) = mpsc::unbounded_channel::<()>();
    let accepted = Arc::new(AtomicUsize::new(0));
    let spurious = Arc::new(AtomicUsize::new(0));
    let mut tasks = Vec::new();
    let held_all: Arc<Mutex<Vec<TcpStream>>> = Arc::new(Mutex::new(Vec::new()));
    // slow-reader sub-matrix: the reading ends of the direction under test start late; they get
    // the states of the writing ends (to note, at their first read, how far those have got)
    let stall = |dir: SlowDir, writers: &[Shared]| case.slow.filter(|s| s.dir == dir).map(|s| (Duration::from_secs(s.stall_s), writers.to_vec()));
    let (stall_c, stall_t) = (stall(SlowDir::Download, &tst), stall(SlowDir::Upload, &cst));
    for l in listeners.drain(..) {
        let held = held_all.clone();
        let tst2 = tst.clone();
        let stall_t = stall_t.clone();
        let case2 = case.clone();
        let done2 = done_tx.clone();
        let accepted2 = accepted.clone();
        let spurious2 = spurious.clone();
        tasks.push(tokio::spawn(async move {
            loop {
                let Ok((s, _)) = l.accept().await else { return };
                let j = accepted2.fetch_add(1, Ordering::SeqCst);
                if j >= case2.conc {
                    spurious2.fetch_add(1, Ordering::SeqCst);
                    held.lock().unwrap_or_else(std::sync::PoisonError::into_inner).push(s);
                    continue;
                }
                let _ = s.set_nodelay(true);
                lock(&tst2[j]).connected = true;
                let role = match case2.order {
                    Order::ClientHalf => Role::HalfResponder,
                    Order::TargetHalf => Role::HalfCloser,
                    Order::ClientClose => Role::CloseResponder,
                    Order::TargetClose | Order::Refuse => Role::Closer,
                    Order::TargetHalfThenClose => Role::HalfThenCloser,
                    Order::ClientHalfThenClose => Role::Streamer,
                };
                let st = tst2[j].clone();
                let done3 = done2.clone();
                let data = payload(case2.t2c, j, 1);
                let (expect, chunk) = (case2.c2t, case2.chunk);
                let stall_t = stall_t.clone();
                tokio::spawn(async move {
                    run_side(Box::new(s), role, data, 0, expect, chunk, st, j, 1, stall_t).await;
                    let _ = done3.send(());
                });
            }
        }));
    }
    for (i, st) in cst.iter().enumerate() {
        tasks.push(tokio::spawn(client_conn(i, case.clone(), ep.clone(), target, domain.clone(), client_done.clone(), st.clone(), deadline, done_tx.clone(), stall_c.clone())));
    }
    drop(done_tx);

    // ---- wait: every actor done, or the subject died, or the deadline
    let expected = if refuse { n } else { 2 * n };
    let mut got = 0usize;
    let mut timed_out = false;
    // IPv6-literal and dual-stack sub-matrices: every local connection is over, one of them ended before it had the
    // target's payload, and the target was never connected to. Nothing that happens later can
    // repair that, so the scenario ends here instead of waiting for a target that nobody will reach.
    let mut closed_unreached = false;
    let over_and_short = |cst: &[Shared]| {
        let mut short = false;
        for s in cst {
            let g = lock(s);
            let over = g.finished || g.connect_err.is_some() || g.shake.as_ref().is_some_and(|sh| *sh != Shake::Granted);
            if !over {
                return false;
            }
            short |= g.finished && g.rx_end.is_some() && g.rx.len() < case.t2c;
            // dual-stack sub-matrix: a refusal (or a close) instead of the grant is final as well
            short |= case.dual.is_some() && g.shake.as_ref().is_some_and(|sh| matches!(sh, Shake::Refused(_) | Shake::Closed(_)));
        }
        short
    };
    while got < expected {
        let now = Instant::now();
        if now >= deadline {
            timed_out = true;
            break;
        }
        if (case.entry.v6literal() || case.dual.is_some()) && !refuse && accepted.load(Ordering::SeqCst) < n && over_and_short(&cst) {
            // a connection that is on its way to the target right now still counts as having reached it
            tokio::time::sleep(Duration::from_millis(250)).await;
            if accepted.load(Ordering::SeqCst) < n {
                closed_unreached = true;
                break;
            }
        }
        let slice = (deadline - now).min(Duration::from_millis(20));
        match tokio::time::timeout(slice, done_rx.recv()).await {
            Ok(Some(())) => got += 1,
            Ok(None) => break,
            Err(_) => {
                if client_done.load(Ordering::SeqCst) {
                    // nothing more can happen; give the actors a moment to notice
                    tokio::time::sleep(Duration::from_millis(50)).await;
                    while done_rx.try_recv().is_ok() {
                        got += 1;
                    }
                    break;
                }
            }
        }
    }
    if !timed_out && got >= expected && !refuse {
        // room for a spurious extra connection to show up (cheap, bounded)
        tokio::task::yield_now().await;
    }

    // ---- subject status
    let mut port_race = false;
    let mut subject_note = String::new();
    if let Some(t) = tunnel.as_mut() {
        if let Some(ex) = t.client_exit().await {
            if ex.addr_in_use {
                port_race = true;
            }
            subject_note = format!(" [subject: {}]", ex.text);
            failures.push(Failure {
                key: if ex.panicked { "subject.client-panicked".into() } else { "subject.client-exited".into() },
                desc: format!("{}: the penguin client ended while local connections were being served: {}", case.label(), ex.text),
                deadline: false,
            });
        }
        if t.server_finished() {
            failures.push(Failure { key: "subject.server-exited".into(), desc: format!("{}: run_listener ended", case.label()), deadline: false });
        }
    }

    // ---- oracle
    let cs: Vec<Side> = cst.iter().map(|s| std::mem::take(&mut *lock(s))).collect();
    let ts: Vec<Side> = tst.iter().map(|s| std::mem::take(&mut *lock(s))).collect();
    for t in &tasks {
        t.abort();
    }
    if let Some(t) = tunnel.as_mut() {
        t.stop();
    }
    if let Some(c) = &control_task {
        c.abort();
    }
    drop(refusing);
    drop(lease);
    if let Some(p) = unix_path {
        let _ = std::fs::remove_file(p);
    }

    let lab = case.label();
    // slow-reader and with-request sub-matrices: same oracle, keys of their own
    let key_sfx = case.slow.map_or(if case.chunk == Chunk::WithRequest { WITH_REQUEST_KEY_SUFFIX } else { "" }, |s| s.dir.key_suffix());
    let mut push = |key: String, desc: String, dl: bool| failures.push(Failure { key: if key == "machinery" { key } else { format!("{key}{key_sfx}") }, desc: format!("{lab}: {desc}{subject_note}"), deadline: dl });

    // connection establishment / handshake
    let mut all_connected = true;
    for (i, c) in cs.iter().enumerate() {
        if let Some((e, dl)) = &c.connect_err {
            all_connected = false;
            if e.contains("ClientExited") {
                // reported through the subject status above
                continue;
            }
            push(format!("tcp.entry.unreachable.{fam}"), format!("local connection {i} could not connect to the {} entry point: {e}", case.entry.name()), *dl);
            continue;
        }
        match &c.shake {
            None => {
                all_connected = false;
                push(format!("tcp.hang.entry-handshake.{fam}"), format!("local connection {i}: the {} handshake got no complete answer within {deadline_s} s", case.entry.name()), true);
            }
            Some(Shake::Granted) => {}
            Some(Shake::Malformed(m)) => {
                all_connected = false;
                push(format!("tcp.handshake.malformed.{fam}"), format!("local connection {i}: {} answer violates the protocol: {m}", case.entry.name()), false);
            }
            Some(Shake::Refused(m) | Shake::Closed(m)) if case.dual.is_some() && accepted.load(Ordering::SeqCst) == 0 => {
                // the same thing as a grant followed by a close, seen one protocol step earlier
                all_connected = false;
                push(
                    format!("tcp.closed.target-not-reached.{fam}"),
                    format!("local connection {i}: the {} entry point answered the request for the target {domain}:{} (which listens on {} and accepts) with {} ({m}); the target was never connected to{control_note}", case.entry.name(), target.port(), case.dual.map_or("", |d| d.listen.name()), if matches!(c.shake, Some(Shake::Refused(_))) { "a refusal" } else { "a close" }),
                    false,
                );
            }
            Some(Shake::Refused(m)) => {
                if refuse {
                    stats.refuse_refused_reply += 1;
                } else {
                    all_connected = false;
                    push(format!("tcp.handshake.refused.{fam}"), format!("local connection {i}: {} refused although the target listens: {m}", case.entry.name()), false);
                }
            }
            Some(Shake::Closed(m)) => {
                if refuse {
                    stats.refuse_closed_before_reply += 1;
                } else {
                    all_connected = false;
                    push(format!("tcp.handshake.closed.{fam}"), format!("local connection {i}: {} closed the connection during the handshake although the target listens: {m}", case.entry.name()), false);
                }
            }
        }
    }

    if refuse {
        for (i, c) in cs.iter().enumerate() {
            if c.shake != Some(Shake::Granted) {
                continue;
            }
            if !c.rx.is_empty() {
                push(format!("tcp.refuse.data-from-nowhere.{fam}"), format!("local connection {i} received {} payload bytes although nothing listens on the target port", c.rx.len()), false);
            }
            match &c.rx_end {
                None => push(
                    format!("tcp.hang.refusal-not-propagated.{fam}"),
                    format!("local connection {i}: the target refuses the connection, but the local connection was neither closed nor reset within {deadline_s} s (wrote {} of {} bytes)", c.tx_bytes, case.c2t),
                    true,
                ),
                Some(e) => {
                    stats.refuse_granted_then_closed += 1;
                    if e == "eof" {
                        stats.refuse_end_eof += 1;
                    } else {
                        stats.refuse_end_reset += 1;
                    }
                }
            }
        }
    } else if all_connected {
        let acc = accepted.load(Ordering::SeqCst).min(n);
        if acc < n && closed_unreached {
            let ends: Vec<String> = cs.iter().map(|c| format!("received {} of {} bytes then {}, wrote {} of {} bytes{}", c.rx.len(), case.t2c, c.rx_end.as_deref().unwrap_or("-"), c.tx_bytes, case.c2t, c.tx_err.as_ref().map_or_else(String::new, |e| format!(" (write error {e})")))).collect();
            push(
                format!("tcp.closed.target-not-reached.{fam}"),
                match case.dual {
                    None => format!("the {} entry point granted the request for the target {target} (which listens and accepts), then ended the local connection without the target ever having been connected to ({acc} of {n} connections reached it); local connections: {ends:?}", case.entry.name()),
                    Some(d) => format!("the {} entry point granted the request for the target {domain}:{} (which listens on {} and accepts), then ended the local connection without the target ever having been connected to ({acc} of {n} connections reached it); local connections: {ends:?}{control_note}", case.entry.name(), target.port(), d.listen.name()),
                },
                false,
            );
        } else if acc < n {
            push(format!("tcp.hang.target-not-reached.{fam}"), format!("only {acc} of {n} connections reached the target within {deadline_s} s"), true);
        } else {
            let sp = spurious.load(Ordering::SeqCst);
            if sp > 0 {
                push(format!("tcp.target.spurious-connection.{fam}"), format!("the target received {sp} connection(s) more than there are local connections"), true);
            }
            evaluate_data(case, &cs, &ts, deadline_s, &mut stats, &mut push);
        }
    }

    // "close after half-close" orders: how much filler the closing end read before it closed depends
    // on the schedule; only the payload part of what it received belongs to the deterministic summary
    let cut_c = if case.order == Order::ClientHalfThenClose { case.t2c } else { usize::MAX };
    let cut_t = if case.order == Order::TargetHalfThenClose { case.c2t } else { usize::MAX };
    let mut obs_c: Vec<Value> = cs.iter().map(|c| (c, &c.rx[..c.rx.len().min(cut_c)])).map(|(c, rx)| json!({"rx_len": rx.len(), "rx_fnv": format!("{:016x}", fnv(rx)), "granted": c.shake == Some(Shake::Granted)})).collect();
    let mut obs_t: Vec<String> = ts.iter().map(|c| &c.rx[..c.rx.len().min(cut_t)]).map(|rx| format!("{}:{:016x}", rx.len(), fnv(rx))).collect();
    obs_t.sort();
    if refuse {
        // how the refusal is signalled may differ between runs (reply vs close); only the verdict counts
        obs_c = cs.iter().map(|c| json!({"rx_len": c.rx.len()})).collect();
    }
    let mut keys: Vec<String> = failures.iter().map(|f| f.key.clone()).collect();
    keys.sort();
    keys.dedup();
    let mut obs = json!({"client_side": obs_c, "target_side": obs_t, "failure_keys": keys});
    if case.dual.is_some() {
        obs["control"] = control_obs;
    }
    TcpOutcome { obs, failures, port_race, stats, wall: t0.elapsed(), vacuous: None }
}

// ---------------------------------------------------------------------------------------
// odd-target-host sub-matrix
// ---------------------------------------------------------------------------------------

/// Why a step of the odd-target-host choreography did not complete.
enum StepFail {
    /// not before the scenario deadline
    Deadline,
    /// definitively (what happened)
    Broken(String),
}

async fn by<T>(deadline: Instant, f: impl std::future::Future<Output = T>) -> Result<T, StepFail> {
    tokio::time::timeout_at(deadline.into(), f).await.map_err(|_| StepFail::Deadline)
}

/// Both ends write `c` / `t` (far below any socket buffer), then both read exactly what the other wrote.
async fn odd_exchange(cio: &mut BoxIo, tio: &mut TcpStream, c: &[u8], t: &[u8], deadline: Instant) -> Result<(), StepFail> {
    let io = |who: &str, what: &str, e: std::io::Error| StepFail::Broken(format!("{who}: {what} failed with {:?}", e.kind()));
    by(deadline, cio.write_all(c)).await?.map_err(|e| io("local connection", "writing", e))?;
    by(deadline, cio.flush()).await?.map_err(|e| io("local connection", "writing", e))?;
    by(deadline, tio.write_all(t)).await?.map_err(|e| io("target connection", "writing", e))?;
    let mut got_t = vec![0u8; c.len()];
    by(deadline, tio.read_exact(&mut got_t)).await?.map_err(|e| StepFail::Broken(format!("target connection: the stream ended with {:?} before the {} octets the local connection had written were there", e.kind(), c.len())))?;
    let mut got_c = vec![0u8; t.len()];
    by(deadline, cio.read_exact(&mut got_c)).await?.map_err(|e| StepFail::Broken(format!("local connection: the stream ended with {:?} before the {} octets the target had written were there", e.kind(), t.len())))?;
    if got_t != c {
        let (cl, d) = classify(&got_t, c);
        return Err(StepFail::Broken(format!("target connection received other octets than the local connection wrote ({cl}: {d})")));
    }
    if got_c != t {
        let (cl, d) = classify(&got_c, t);
        return Err(StepFail::Broken(format!("local connection received other octets than the target wrote ({cl}: {d})")));
    }
    Ok(())
}

/// The local connection half-closes, the target must see a true EOF; the target half-closes, the
/// local connection must see the end (EOF; a reset after both directions are finished is recorded elsewhere, not judged).
async fn odd_close(cio: &mut BoxIo, tio: &mut TcpStream, deadline: Instant) -> Result<(), StepFail> {
    by(deadline, cio.shutdown()).await?.map_err(|e| StepFail::Broken(format!("local connection: the half-close failed with {:?}", e.kind())))?;
    let mut b = [0u8; 16];
    match by(deadline, tio.read(&mut b)).await? {
        Ok(0) => {}
        Ok(n) => return Err(StepFail::Broken(format!("target connection received {n} octet(s) more than the local connection wrote"))),
        Err(e) => return Err(StepFail::Broken(format!("target connection: the local connection's half-close arrived as {:?} instead of EOF", e.kind()))),
    }
    by(deadline, tio.shutdown()).await?.map_err(|e| StepFail::Broken(format!("target connection: the half-close failed with {:?}", e.kind())))?;
    match by(deadline, cio.read(&mut b)).await? {
        Ok(0) | Err(_) => Ok(()),
        Ok(n) => Err(StepFail::Broken(format!("local connection received {n} octet(s) more than the target wrote"))),
    }
}

/// The handshake of an ordinary connection (to `domain`:`port`) at one of `ODD_ENTRIES`.
async fn odd_shake_ordinary(entry: Entry, io: &mut BoxIo, domain: &str, port: u16) -> Shake {
    match entry {
        Entry::Socks5Domain => proto::socks5_connect(io, IpAddr::V4(Ipv4Addr::LOCALHOST), port, Some(domain)).await,
        Entry::Socks4a => proto::socks4_connect(io, Ipv4Addr::LOCALHOST, port, Some(domain)).await,
        _ => proto::http_connect(io, &format!("{domain}:{port}")).await,
    }
}

/// Open one ordinary connection through the entry point and accept it at the target.
/// Err((what, failure)): `what` says which step.
async fn odd_open(entry: Entry, ep: SocketAddr, domain: &str, listener: &TcpListener, client_done: &AtomicBool, deadline: Instant) -> Result<(BoxIo, TcpStream), (String, StepFail)> {
    let port = listener.local_addr().expect("target addr").port();
    let mut io: BoxIo = match env::connect_tcp_entry(ep, client_done, deadline).await {
        Ok(s) => Box::new(s),
        Err(ConnectFail::ClientExited) => return Err(("the penguin client had ended when the entry point was connected to".into(), StepFail::Broken("client ended".into()))),
        Err(ConnectFail::Deadline(e)) => return Err((format!("the {} entry point could not be connected to ({e})", entry.name()), StepFail::Deadline)),
    };
    match by(deadline, odd_shake_ordinary(entry, &mut io, domain, port)).await {
        Err(f) => return Err((format!("the {} handshake for the ordinary target {domain}:{port} got no complete answer", entry.name()), f)),
        Ok(Shake::Granted) => {}
        Ok(other) => return Err((format!("the {} entry point did not grant the request for the ordinary target {domain}:{port} (which listens)", entry.name()), StepFail::Broken(format!("{other:?}")))),
    }
    match by(deadline, listener.accept()).await {
        Err(f) => Err(("the request was granted but the ordinary target was never connected to".into(), f)),
        Ok(Err(e)) => Err(("accept at the target".into(), StepFail::Broken(format!("{:?}", e.kind())))),
        Ok(Ok((s, _))) => {
            let _ = s.set_nodelay(true);
            Ok((io, s))
        }
    }
}

/// One point of the odd-target-host sub-matrix (see `ODD_KEY`).
async fn run_odd(mode: &Mode<'_>, case: &TcpCase, deadline_s: u64, t0: Instant) -> TcpOutcome {
    let deadline = t0 + Duration::from_secs(deadline_s);
    let lab = case.label();
    let machinery = |m: String| TcpOutcome { failures: vec![Failure { key: "machinery".into(), desc: m, deadline: false }], obs: json!({"machinery": true}), port_race: false, stats: TcpStats::default(), wall: t0.elapsed(), vacuous: None };
    let (Mode::Penguin(envr), Some(host), true) = (mode, case.odd.as_ref(), case.odd_well_formed()) else {
        return machinery(format!("{lab}: not a point of the matrix"));
    };
    let entry = case.entry;
    let en = entry.name();
    let listener = match TcpListener::bind("127.0.0.1:0").await {
        Ok(l) => l,
        Err(e) => return machinery(format!("bind target: {e}")),
    };
    let lease = env::lease_port(false);
    let ep = SocketAddr::from(([127, 0, 0, 1], lease.port));
    let spec = if entry == Entry::HttpConnect { format!("127.0.0.1:{}:http", lease.port) } else { format!("127.0.0.1:{}:socks", lease.port) };
    let mut tunnel = match env::start_tunnel(envr, &[spec]).await {
        Ok(t) => t,
        Err(e) => return machinery(e),
    };
    let client_done = tunnel.client_done.clone();
    let domain = envr.domain.clone();
    let host_text = format!("{:?} (hex {}, {} octets)", String::from_utf8_lossy(&host[..host.len().min(24)]), vcommon::report::hex(host), host.len());

    let mut failures: Vec<Failure> = Vec::new();
    let mut stats = TcpStats::default();
    let (c_pay, t_pay) = (payload(case.c2t, 0, 0), payload(case.t2c, 0, 1));
    let (c_cut, t_cut) = (case.c2t / 2, case.t2c / 2);
    let mut x_state: &str;
    let mut y_state = "not-started".to_string();
    let mut z_state = "not-started";
    // a failure that shows late in a scenario that took most of its deadline may be the load of the
    // machine (the subject's own 30 s channel timeout is not far): it is confirmed alone like a deadline hit
    let late = |t0: Instant| t0.elapsed() > Duration::from_secs(deadline_s) / 2;
    let ended = |what: &str, f: &StepFail| match f {
        StepFail::Deadline => format!("{what}: not within {deadline_s} s"),
        StepFail::Broken(m) => format!("{what}: {m}"),
    };

    'scenario: {
        // ---- X: the bystander, first halves
        let (mut xc, mut xt) = match odd_open(entry, ep, &domain, &listener, &client_done, deadline).await {
            Ok(p) => p,
            Err((what, f)) => {
                x_state = "not-established";
                if !client_done.load(Ordering::SeqCst) {
                    failures.push(Failure { key: format!("tcp.{ODD_KEY}.before-the-odd-request.{en}"), desc: format!("{lab}: the first local connection (before anything odd was asked for) could not be made: {}", ended(&what, &f)), deadline: matches!(f, StepFail::Deadline) || late(t0) });
                }
                break 'scenario;
            }
        };
        if let Err(f) = odd_exchange(&mut xc, &mut xt, &c_pay[..c_cut], &t_pay[..t_cut], deadline).await {
            x_state = "first-half-failed";
            failures.push(Failure { key: format!("tcp.{ODD_KEY}.before-the-odd-request.{en}"), desc: format!("{lab}: the first local connection (before anything odd was asked for) did not carry the first halves of the payloads: {}", ended("first halves", &f)), deadline: matches!(f, StepFail::Deadline) || late(t0) });
            break 'scenario;
        }
        x_state = "first-half-done";

        // ---- Y: the request for the odd host
        let y_io: Result<BoxIo, ConnectFail> = env::connect_tcp_entry(ep, &client_done, deadline).await.map(|s| Box::new(s) as BoxIo);
        let mut y_hang: Option<String> = None;
        match y_io {
            Err(ConnectFail::ClientExited) => y_state = "client-ended".into(),
            Err(ConnectFail::Deadline(e)) => {
                y_state = "entry-unreachable".into();
                failures.push(Failure { key: format!("tcp.entry.unreachable.{ODD_KEY}.{en}"), desc: format!("{lab}: with local connection X open, a second local connection could not connect to the {en} entry point within {deadline_s} s ({e})"), deadline: true });
            }
            Ok(mut yio) => {
                let shake = by(deadline, async {
                    match entry {
                        Entry::Socks5Domain => proto::socks5_connect_raw_domain(&mut yio, host, ODD_PORT).await,
                        Entry::Socks4a => proto::socks4a_connect_raw(&mut yio, host, ODD_PORT).await,
                        _ => {
                            let mut a = host.clone();
                            a.extend_from_slice(format!(":{ODD_PORT}").as_bytes());
                            proto::http_connect_raw(&mut yio, &a).await
                        }
                    }
                })
                .await;
                match shake {
                    Err(_) => {
                        y_state = "no-answer".into();
                        y_hang = Some(format!("the {en} request got no complete answer and the connection was not closed"));
                    }
                    Ok(Shake::Refused(m)) => y_state = format!("failure-reply ({m})"),
                    Ok(Shake::Closed(_)) => y_state = "closed-before-a-reply".into(),
                    Ok(Shake::Malformed(m)) => y_state = format!("answer-outside-the-protocol ({m})"),
                    Ok(Shake::Granted) => {
                        // granted: the local connection must now be closed or reset (nothing is read from it: whatever comes is discarded)
                        let end = by(deadline, async {
                            let mut buf = vec![0u8; 4096];
                            loop {
                                match yio.read(&mut buf).await {
                                    Ok(0) => return "eof".to_string(),
                                    Ok(_) => {}
                                    Err(e) => return format!("{:?}", e.kind()),
                                }
                            }
                        })
                        .await;
                        match end {
                            Ok(e) => y_state = format!("granted-then-closed ({})", if e == "eof" { "eof" } else { "reset" }),
                            Err(_) => {
                                y_state = "granted-then-left-open".into();
                                y_hang = Some(format!("the {en} entry point granted the request, and then the local connection was neither closed nor reset"));
                            }
                        }
                    }
                }
                drop(yio);
            }
        }
        if let Some(what) = y_hang {
            // differential control: does the host lead somewhere from this very process? Then an open connection is what a direct connection would be.
            let direct = match std::str::from_utf8(host) {
                Ok(h) if !h.is_empty() => matches!(tokio::time::timeout(Duration::from_secs(5), TcpStream::connect((h, ODD_PORT))).await, Ok(Ok(_))),
                _ => false,
            };
            if direct {
                y_state = format!("{y_state}; a direct connection to the host, port {ODD_PORT}, from this process is accepted: no verdict");
            } else {
                failures.push(Failure { key: format!("tcp.hang.{ODD_KEY}.{en}"), desc: format!("{lab}: local connection Y asked the {en} entry point for the target host {host_text}, port {ODD_PORT} (a direct connection to it from this process fails): {what} within {deadline_s} s: left hanging"), deadline: true });
            }
            // (the deadline has passed: nothing more can be judged)
            break 'scenario;
        }
        *stats.odd_request_ends.entry(y_state.split(" (").next().unwrap_or("?").to_string()).or_insert(0) += 1;

        // ---- X again: second halves and the close, every octet equal end to end
        let x2 = match odd_exchange(&mut xc, &mut xt, &c_pay[c_cut..], &t_pay[t_cut..], deadline).await {
            Ok(()) => odd_close(&mut xc, &mut xt, deadline).await,
            Err(f) => Err(f),
        };
        match x2 {
            Ok(()) => {
                x_state = "completed";
                stats.odd_bystander_completed += 1;
                stats.conns_verified += 1;
                stats.bytes_verified += (case.c2t + case.t2c) as u64;
            }
            Err(StepFail::Deadline) => {
                x_state = "stalled";
                failures.push(Failure { key: format!("tcp.hang.bystander.{ODD_KEY}.{en}"), desc: format!("{lab}: local connection X (to the ordinary target, open and working since before) did not carry the second halves of its payloads and its close within {deadline_s} s after local connection Y had asked the same {en} entry point for the target host {host_text}, port {ODD_PORT} (Y: {y_state})"), deadline: true });
                break 'scenario;
            }
            Err(StepFail::Broken(m)) => {
                x_state = "broken";
                failures.push(Failure { key: format!("tcp.bystander-broken.{ODD_KEY}.{en}"), desc: format!("{lab}: local connection X (to the ordinary target, open and working: first halves of the payloads exchanged) was broken after local connection Y had asked the same {en} entry point for the target host {host_text}, port {ODD_PORT} (Y: {y_state}): {m}"), deadline: late(t0) });
            }
        }
        drop((xc, xt));

        // ---- Z: a new connection through the same entry point
        let (zc_pay, zt_pay) = (payload(case.c2t, 1, 0), payload(case.t2c, 1, 1));
        let z = match odd_open(entry, ep, &domain, &listener, &client_done, deadline).await {
            Err(e) => Err(e),
            Ok((mut zc, mut zt)) => match odd_exchange(&mut zc, &mut zt, &zc_pay, &zt_pay, deadline).await {
                Err(f) => Err(("the payloads".into(), f)),
                Ok(()) => odd_close(&mut zc, &mut zt, deadline).await.map_err(|f| ("the close".to_string(), f)),
            },
        };
        match z {
            Ok(()) => {
                z_state = "completed";
                stats.odd_later_connection_worked += 1;
                stats.conns_verified += 1;
                stats.bytes_verified += (case.c2t + case.t2c) as u64;
            }
            Err((what, f)) => {
                z_state = if matches!(f, StepFail::Deadline) { "stalled" } else { "failed" };
                failures.push(Failure { key: format!("tcp.later-connection-fails.{ODD_KEY}.{en}"), desc: format!("{lab}: after local connection Y had asked the {en} entry point for the target host {host_text}, port {ODD_PORT} (Y: {y_state}; X: {x_state}), a NEW local connection Z through the same entry point to the ordinary target (which listens) did not work: {}", ended(&what, &f)), deadline: matches!(f, StepFail::Deadline) || late(t0) });
            }
        }
    }

    // ---- subject status
    let mut port_race = false;
    if let Some(ex) = tunnel.client_exit().await {
        if ex.addr_in_use {
            port_race = true;
        }
        failures.push(Failure { key: if ex.panicked { "subject.client-panicked".into() } else { "subject.client-exited".into() }, desc: format!("{lab}: the penguin client ended while local connections were being served (X: {x_state}; Y: {y_state}; Z: {z_state}): {}", ex.text), deadline: false });
    }
    if tunnel.server_finished() {
        failures.push(Failure { key: "subject.server-exited".into(), desc: format!("{lab}: run_listener ended"), deadline: false });
    }
    tunnel.stop();
    drop(lease);
    let mut keys: Vec<String> = failures.iter().map(|f| f.key.clone()).collect();
    keys.sort();
    keys.dedup();
    // (how the odd request was turned down may differ between runs: only the verdicts belong to the deterministic summary)
    let obs = json!({"bystander_x": x_state, "later_connection_z": z_state, "failure_keys": keys});
    TcpOutcome { obs, failures, port_race, stats, wall: t0.elapsed(), vacuous: None }
}

fn classify(got: &[u8], want: &[u8]) -> (&'static str, String) {
    if got == want {
        return ("equal", String::new());
    }
    let lcp = got.iter().zip(want.iter()).take_while(|(a, b)| a == b).count();
    if lcp == got.len() && got.len() < want.len() {
        ("truncated", format!("received {} of {} bytes (a proper prefix)", got.len(), want.len()))
    } else if lcp == want.len() && got.len() > want.len() {
        ("extra", format!("received {} bytes, {} more than were sent", got.len(), got.len() - want.len()))
    } else {
        ("corrupt", format!("first difference at offset {lcp} (received {} bytes, sent {})", got.len(), want.len()))
    }
}

fn best_match<'a>(got: &[u8], cands: &'a [Vec<u8>]) -> (usize, &'static str, String) {
    let mut best = (0usize, "corrupt", String::new(), 0usize, false);
    for (k, w) in cands.iter().enumerate() {
        let (cl, d) = classify(got, w);
        if cl == "equal" {
            return (k, "equal", d);
        }
        let lcp = got.iter().zip(w.iter()).take_while(|(a, b)| a == b).count();
        if !best.4 || lcp > best.3 {
            best = (k, cl, d, lcp, true);
        }
    }
    (best.0, best.1, best.2)
}

fn permutations(n: usize) -> Vec<Vec<usize>> {
    fn rec(cur: &mut Vec<usize>, used: &mut Vec<bool>, n: usize, out: &mut Vec<Vec<usize>>) {
        if cur.len() == n {
            out.push(cur.clone());
            return;
        }
        for k in 0..n {
            if !used[k] {
                used[k] = true;
                cur.push(k);
                rec(cur, used, n, out);
                cur.pop();
                used[k] = false;
            }
        }
    }
    let mut out = Vec::new();
    rec(&mut Vec::new(), &mut vec![false; n], n, &mut out);
    out
}

fn evaluate_data(case: &TcpCase, cs: &[Side], ts: &[Side], deadline_s: u64, stats: &mut TcpStats, push: &mut impl FnMut(String, String, bool)) {
    if case.order.after_half() {
        return evaluate_after_half(case, cs, ts, deadline_s, stats, push);
    }
    let n = case.conc;
    let fam_s = case.family();
    let fam = fam_s.as_str();
    let ord = case.order.name();
    let c_pay: Vec<Vec<u8>> = (0..n).map(|i| payload(case.c2t, i, 0)).collect();
    let t_pay: Vec<Vec<u8>> = (0..n).map(|j| payload(case.t2c, j, 1)).collect();

    // ---- liveness: the milestones of the choreography, in causal order
    let c2t_complete = ts.iter().all(|t| t.rx.len() >= case.c2t);
    let t2c_complete = cs.iter().all(|c| c.rx.len() >= case.t2c);
    let c_ended = cs.iter().all(|c| c.rx_end.is_some());
    let t_ended = ts.iter().all(|t| t.rx_end.is_some());
    let c_tx = cs.iter().map(|c| c.tx_bytes).min().unwrap_or(0);
    let t_tx = ts.iter().map(|t| t.tx_bytes).min().unwrap_or(0);
    // slow-reader sub-matrix: (the slow readers, the length of the payload they wait with reading)
    let slow_ends = case.slow.map(|s| match s.dir {
        SlowDir::Download => (cs, case.t2c, "local connection", "target"),
        SlowDir::Upload => (ts, case.c2t, "target connection", "client"),
    });
    let slow_note = match (case.slow, slow_ends) {
        (Some(s), Some((readers, _, who, writer))) => format!(
            "; every {who} began to read {} s after it existed, when the {writer} side had written {:?} bytes",
            s.stall_s,
            readers.iter().map(|r| r.stall_peer_tx.as_ref().map_or_else(|| "-".to_string(), |w| format!("{w:?}"))).collect::<Vec<_>>()
        ),
        _ => String::new(),
    };
    let progress = format!(
        "client side: rx {:?} end {:?} tx {:?}; target side: rx {:?} end {:?} tx {:?}{slow_note}",
        cs.iter().map(|c| c.rx.len()).collect::<Vec<_>>(),
        cs.iter().map(|c| c.rx_end.clone().unwrap_or_else(|| "-".into())).collect::<Vec<_>>(),
        cs.iter().map(|c| c.tx_bytes).collect::<Vec<_>>(),
        ts.iter().map(|c| c.rx.len()).collect::<Vec<_>>(),
        ts.iter().map(|c| c.rx_end.clone().unwrap_or_else(|| "-".into())).collect::<Vec<_>>(),
        ts.iter().map(|c| c.tx_bytes).collect::<Vec<_>>()
    );
    let all_finished = cs.iter().all(|c| c.finished) && ts.iter().all(|t| t.finished);
    if !all_finished {
        // which milestone is the first one missing?
        let hang: Option<(String, String)> = match case.order {
            Order::ClientHalf => {
                if !c2t_complete && !t_ended {
                    Some((format!("tcp.hang.data-stalled.c2t.{fam}"), format!("the client wrote {c_tx}+ of {} bytes but they did not all reach the target", case.c2t)))
                } else if !t_ended {
                    Some((format!("tcp.hang.halfclose-not-propagated.c2t.{fam}"), "the client half-closed after its payload, the target received the payload but never saw EOF".into()))
                } else if !t2c_complete && !c_ended {
                    Some((format!("tcp.hang.data-stalled.t2c.{fam}.after-halfclose"), format!("after the client's half-close the target wrote {t_tx}+ of {} bytes but they did not all reach the client", case.t2c)))
                } else if !c_ended {
                    Some((format!("tcp.hang.close-not-propagated.t2c.{fam}"), "the target finished and half-closed too, but the local connection never reached EOF".into()))
                } else {
                    None
                }
            }
            Order::TargetHalf => {
                if !t2c_complete && !c_ended {
                    Some((format!("tcp.hang.data-stalled.t2c.{fam}"), format!("the target wrote {t_tx}+ of {} bytes but they did not all reach the client", case.t2c)))
                } else if !c_ended {
                    Some((format!("tcp.hang.halfclose-not-propagated.t2c.{fam}"), "the target half-closed after its payload, the client received the payload but never saw EOF".into()))
                } else if !c2t_complete && !t_ended {
                    Some((format!("tcp.hang.data-stalled.c2t.{fam}.after-halfclose"), format!("after the target's half-close the client wrote {c_tx}+ of {} bytes but they did not all reach the target", case.c2t)))
                } else if !t_ended {
                    Some((format!("tcp.hang.close-not-propagated.c2t.{fam}"), "the client finished and half-closed too, but the target connection never reached EOF".into()))
                } else {
                    None
                }
            }
            Order::ClientClose => {
                if !t2c_complete && !c_ended {
                    Some((format!("tcp.hang.data-stalled.t2c.{fam}"), format!("the target wrote {t_tx}+ of {} bytes but they did not all reach the client", case.t2c)))
                } else if !c2t_complete && !t_ended {
                    Some((format!("tcp.hang.data-stalled.c2t.{fam}"), format!("the client wrote {c_tx}+ of {} bytes but they did not all reach the target", case.c2t)))
                } else if !t_ended {
                    Some((format!("tcp.hang.close-not-propagated.c2t.{fam}"), "the client closed its connection, the target connection was neither closed nor reset".into()))
                } else {
                    None
                }
            }
            Order::TargetHalfThenClose | Order::ClientHalfThenClose => unreachable!("judged by evaluate_after_half"),
            Order::TargetClose | Order::Refuse => {
                if !c2t_complete && !t_ended {
                    Some((format!("tcp.hang.data-stalled.c2t.{fam}"), format!("the client wrote {c_tx}+ of {} bytes but they did not all reach the target", case.c2t)))
                } else if !t2c_complete && !c_ended {
                    Some((format!("tcp.hang.data-stalled.t2c.{fam}"), format!("the target wrote {t_tx}+ of {} bytes but they did not all reach the client", case.t2c)))
                } else if !c_ended {
                    Some((format!("tcp.hang.close-not-propagated.t2c.{fam}"), "the target closed its connection, the local connection was neither closed nor reset (left hanging)".into()))
                } else {
                    None
                }
            }
        };
        let (k, d) = hang.unwrap_or_else(|| (format!("tcp.hang.write-blocked.{fam}"), "all reads ended but a writer is still blocked".into()));
        push(k, format!("{d} within {deadline_s} s; {progress}"), true);
        return;
    }

    // ---- write errors (a direct connection would have none in these choreographies)
    for (i, c) in cs.iter().enumerate() {
        if let Some(e) = &c.tx_err {
            push(format!("tcp.write-error.client.{fam}.{ord}"), format!("local connection {i}: writing failed with {e} after {} of {} bytes; {progress}", c.tx_bytes, case.c2t), false);
        }
    }
    for (j, t) in ts.iter().enumerate() {
        if let Some(e) = &t.tx_err {
            push(format!("tcp.write-error.target.{fam}.{ord}"), format!("target connection {j}: writing failed with {e} after {} of {} bytes; {progress}", t.tx_bytes, case.t2c), false);
        }
    }

    // ---- data, per connection, with the pairing client connection <-> target connection inferred
    let ok_perm = permutations(n).into_iter().find(|p| (0..n).all(|i| cs[i].rx == t_pay[p[i]] && ts[p[i]].rx == c_pay[i]));
    if ok_perm.is_some() {
        stats.conns_verified += n as u64;
        stats.bytes_verified += (n * (case.c2t + case.t2c)) as u64;
        if let Some((readers, len, _, _)) = slow_ends {
            // not judged: says whether the scenario was what it is meant to be
            let noted: Vec<usize> = readers.iter().filter_map(|r| r.stall_peer_tx.as_ref()).flatten().copied().collect();
            if readers.iter().all(|r| r.stall_peer_tx.is_some()) && noted.iter().all(|w| *w < len) {
                stats.slow_reader_backed_up += 1;
            }
            if let (Some(lo), Some(hi)) = (noted.iter().min(), noted.iter().max()) {
                stats.slow_reader_written_at_first_read_min = *lo as u64;
                stats.slow_reader_written_at_first_read_max = *hi as u64;
            }
        }
    } else {
        let mut any = false;
        for (i, c) in cs.iter().enumerate() {
            let (j, cl, d) = best_match(&c.rx, &t_pay);
            if cl != "equal" {
                any = true;
                // bytes the target wrote only after it had seen the client's half-close are missing:
                // the reverse direction did not survive the half-close
                let after = case.order == Order::ClientHalf && cl == "truncated" && c.rx.len() == case.t2c / 2 && case.t2c > 0;
                let (sfx, extra) = if after { (".after-halfclose", " (exactly the part the target sent after it saw the client's half-close is missing)") } else { ("", "") };
                push(
                    format!("tcp.data.t2c.{cl}.{fam}{sfx}"),
                    format!("local connection {i} vs the payload of target connection {j}: {d}{extra}; stream ended with {:?}; {progress}", c.rx_end),
                    false,
                );
            }
        }
        for (j, t) in ts.iter().enumerate() {
            let (i, cl, d) = best_match(&t.rx, &c_pay);
            if cl != "equal" {
                any = true;
                let after = case.order == Order::TargetHalf && cl == "truncated" && t.rx.len() == case.c2t / 2 && case.c2t > 0;
                let (sfx, extra) = if after { (".after-halfclose", " (exactly the part the client sent after it saw the target's half-close is missing)") } else { ("", "") };
                push(
                    format!("tcp.data.c2t.{cl}.{fam}{sfx}"),
                    format!("target connection {j} vs the payload of local connection {i}: {d}{extra}; stream ended with {:?}; {progress}", t.rx_end),
                    false,
                );
            }
        }
        if !any {
            push(
                format!("tcp.data.crossed.{fam}"),
                "every stream is intact but the two directions of the local connections are not paired consistently (bytes of one local connection went to a target connection whose bytes went to another local connection)".to_string(),
                false,
            );
        }
    }

    // ---- close choreography
    match case.order {
        Order::ClientHalf => {
            for (j, t) in ts.iter().enumerate() {
                match t.rx_end.as_deref() {
                    Some("eof") => {
                        // the second half was started after the EOF, with the whole client payload received
                        if t.second_half_at == Some(case.c2t) {
                            stats.halfclose_eof_seen += 1;
                        }
                    }
                    other => push(format!("tcp.halfclose.not-eof.c2t.{fam}"), format!("target connection {j}: the client's half-close arrived as {other:?} instead of EOF; {progress}"), false),
                }
            }
            for c in cs {
                if c.rx_end.as_deref() == Some("eof") {
                    stats.end_eof += 1;
                } else {
                    stats.end_reset += 1;
                }
            }
        }
        Order::TargetHalf => {
            for (i, c) in cs.iter().enumerate() {
                match c.rx_end.as_deref() {
                    Some("eof") => {
                        if c.second_half_at == Some(case.t2c) {
                            stats.halfclose_eof_seen += 1;
                        }
                    }
                    other => push(format!("tcp.halfclose.not-eof.t2c.{fam}"), format!("local connection {i}: the target's half-close arrived as {other:?} instead of EOF; {progress}"), false),
                }
            }
            for t in ts {
                if t.rx_end.as_deref() == Some("eof") {
                    stats.end_eof += 1;
                } else {
                    stats.end_reset += 1;
                }
            }
        }
        Order::ClientClose => {
            for t in ts {
                if t.rx_end.as_deref() == Some("eof") {
                    stats.end_eof += 1;
                } else {
                    stats.end_reset += 1;
                }
            }
        }
        Order::TargetClose | Order::Refuse => {
            for c in cs {
                if c.rx_end.as_deref() == Some("eof") {
                    stats.end_eof += 1;
                } else {
                    stats.end_reset += 1;
                }
            }
        }
        Order::TargetHalfThenClose | Order::ClientHalfThenClose => unreachable!("judged by evaluate_after_half"),
    }
}

/// The two "close after half-close" orders. One end (the closer: the target for
/// `TargetHalfThenClose`, the client for `ClientHalfThenClose`) writes its payload and half-closes;
/// the other end (the streamer) has written its payload, sees the closer's payload and EOF and
/// keeps sending filler; the closer reads the streamer's payload and some filler, then closes
/// completely. Judged:
///  * the streamer received exactly the closer's payload, then a true EOF;
///  * the closer received (streamer's payload ++ filler) up to some point at or after the end of
///    the payload, and its connection was not ended by anybody else before it closed it itself;
///  * after the close the streamer's connection is closed or reset, i.e. its writes begin to fail
///    (HOW is recorded, not judged) before the scenario deadline. No other timing is judged.
fn evaluate_after_half(case: &TcpCase, cs: &[Side], ts: &[Side], deadline_s: u64, stats: &mut TcpStats, push: &mut impl FnMut(String, String, bool)) {
    let n = case.conc;
    let fam_s = case.family();
    let fam = fam_s.as_str();
    let ord = case.order.name();
    let target_closes = case.order == Order::TargetHalfThenClose;
    // st: the streaming ends, cl: the ends that half-close and then close
    let (st, cl) = if target_closes { (cs, ts) } else { (ts, cs) };
    // hd: direction of the closer's payload (and of its half-close and close), sd: direction of the streamer's bytes
    let (hd, sd) = if target_closes { ("t2c", "c2t") } else { ("c2t", "t2c") };
    let (closer, streamer, closer_conn, streamer_conn) = if target_closes { ("target", "client", "target connection", "local connection") } else { ("client", "target", "local connection", "target connection") };
    let (h_len, s_len) = if target_closes { (case.t2c, case.c2t) } else { (case.c2t, case.t2c) };
    let h_dir: u8 = u8::from(target_closes);
    let s_dir: u8 = 1 - h_dir;
    let h_pay: Vec<Vec<u8>> = (0..n).map(|k| payload(h_len, k, h_dir)).collect();
    let s_pay: Vec<Vec<u8>> = (0..n).map(|k| payload(s_len, k, s_dir)).collect();
    // what a closer that received `len` bytes from streamer `k` must have received
    let s_want = |k: usize, len: usize| -> Vec<u8> {
        let mut w = s_pay[k].clone();
        if len > s_len {
            w.extend_from_slice(&filler(k, s_dir, 0, len - s_len));
        }
        w
    };
    let end = |x: &Side| x.rx_end.clone().unwrap_or_else(|| "-".into());
    let progress = format!(
        "{streamer} side (keeps sending): rx {:?} end {:?} payload tx {:?} filler tx {:?} write error {:?}; {closer} side (half-closes, then closes): rx {:?} (of which filler {:?}) end {:?} tx {:?} closed {:?}",
        st.iter().map(|x| x.rx.len()).collect::<Vec<_>>(),
        st.iter().map(end).collect::<Vec<_>>(),
        st.iter().map(|x| x.tx_bytes).collect::<Vec<_>>(),
        st.iter().map(|x| x.filler_tx).collect::<Vec<_>>(),
        st.iter().map(|x| x.tx_err.clone().unwrap_or_else(|| "-".into())).collect::<Vec<_>>(),
        cl.iter().map(|x| x.rx.len()).collect::<Vec<_>>(),
        cl.iter().map(|x| x.rx.len().saturating_sub(s_len)).collect::<Vec<_>>(),
        cl.iter().map(end).collect::<Vec<_>>(),
        cl.iter().map(|x| x.tx_bytes).collect::<Vec<_>>(),
        cl.iter().map(|x| x.finished).collect::<Vec<_>>()
    );

    // ---- liveness: the milestones of the choreography, in causal order
    if !(st.iter().all(|x| x.finished) && cl.iter().all(|x| x.finished)) {
        let st_has_payload = st.iter().all(|x| x.rx.len() >= h_len);
        let st_ended = st.iter().all(|x| x.rx_end.is_some());
        let cl_has_payload = cl.iter().all(|x| x.rx.len() >= s_len);
        let cl_closed = cl.iter().all(|x| x.finished);
        let cl_tx = cl.iter().map(|x| x.tx_bytes).min().unwrap_or(0);
        let st_tx = st.iter().map(|x| x.tx_bytes).min().unwrap_or(0);
        let (k, d) = if !st_has_payload && !st_ended {
            (format!("tcp.hang.data-stalled.{hd}.{fam}"), format!("the {closer} wrote {cl_tx}+ of {h_len} bytes but they did not all reach the {streamer}"))
        } else if !st_ended {
            (format!("tcp.hang.halfclose-not-propagated.{hd}.{fam}"), format!("the {closer} half-closed after its payload, the {streamer} received the payload but never saw EOF"))
        } else if !cl_closed && !cl_has_payload {
            (format!("tcp.hang.data-stalled.{sd}.{fam}.after-halfclose"), format!("after the {closer}'s half-close the {streamer} wrote {st_tx}+ of {s_len} payload bytes but they did not all reach the {closer}"))
        } else if !cl_closed {
            (format!("tcp.hang.write-blocked.{fam}"), format!("the {closer} has everything it waits for but its writer is still blocked"))
        } else {
            (
                format!("tcp.hang.close-not-propagated.{hd}.{fam}.after-halfclose"),
                format!("the {closer} half-closed after its payload, the {streamer} kept sending, then the {closer} closed its connection completely; the {streamer_conn} was left hanging (the {streamer}'s writes kept succeeding or blocked, none failed): it was neither closed nor reset"),
            )
        };
        push(k, format!("{d} within {deadline_s} s; {progress}"), true);
        return;
    }

    // ---- write errors: the closer must have none; the streamer none before its payload is out
    // (the one that ends its filler is the required outcome)
    for (j, x) in cl.iter().enumerate() {
        if let Some(e) = &x.tx_err {
            push(format!("tcp.write-error.{closer}.{fam}.{ord}"), format!("{closer_conn} {j}: writing failed with {e} after {} of {h_len} bytes; {progress}", x.tx_bytes), false);
        }
    }
    for (i, x) in st.iter().enumerate() {
        match &x.tx_err {
            Some(e) if !x.payload_written => push(format!("tcp.write-error.{streamer}.{fam}.{ord}"), format!("{streamer_conn} {i}: writing failed with {e} after {} of {s_len} payload bytes, while the {closer} was still reading; {progress}", x.tx_bytes), false),
            Some(e) => {
                stats.after_halfclose_closed += 1;
                *stats.after_halfclose_end_kinds.entry(e.clone()).or_insert(0) += 1;
            }
            // (cannot happen: the streamer's writer ends only with an error)
            None => push("machinery".into(), format!("{streamer_conn} {i}: the streaming end finished without a write error; {progress}"), false),
        }
    }

    // ---- data, per connection, with the pairing streamer <-> closer inferred
    let cl_ok = |x: &Side, k: usize| x.rx.len() >= s_len && x.rx == s_want(k, x.rx.len());
    let ok_perm = permutations(n).into_iter().find(|p| (0..n).all(|i| st[i].rx == h_pay[p[i]] && cl_ok(&cl[p[i]], i)));
    if ok_perm.is_some() {
        stats.conns_verified += n as u64;
        stats.bytes_verified += (n * h_len) as u64 + cl.iter().map(|x| x.rx.len() as u64).sum::<u64>();
    } else {
        let mut any = false;
        for (i, x) in st.iter().enumerate() {
            let (j, c, d) = best_match(&x.rx, &h_pay);
            if c != "equal" {
                any = true;
                push(format!("tcp.data.{hd}.{c}.{fam}"), format!("{streamer_conn} {i} vs the payload of {closer_conn} {j}: {d}; stream ended with {:?}; {progress}", x.rx_end), false);
            }
        }
        for (j, x) in cl.iter().enumerate() {
            let cands: Vec<Vec<u8>> = (0..n).map(|k| s_want(k, x.rx.len())).collect();
            let (i, c, d) = best_match(&x.rx, &cands);
            if c != "equal" {
                any = true;
                // the payload is intact, the difference is in the bytes sent after the half-close was seen
                let after = x.rx.len() > s_len && x.rx[..s_len] == s_pay[i][..];
                let (sfx, extra) = if after { (".after-halfclose", format!(" (the {s_len} payload bytes are intact; the difference is in the filler the {streamer} sent after it saw the {closer}'s half-close)")) } else { ("", String::new()) };
                push(format!("tcp.data.{sd}.{c}.{fam}{sfx}"), format!("{closer_conn} {j} vs payload ++ filler of {streamer_conn} {i}: {d}{extra}; reading ended with {:?}; {progress}", x.rx_end), false);
            }
        }
        if !any {
            push(
                format!("tcp.data.crossed.{fam}"),
                "every stream is intact but the two directions of the local connections are not paired consistently (bytes of one local connection went to a target connection whose bytes went to another local connection)".to_string(),
                false,
            );
        }
    }

    // ---- close choreography
    for (i, x) in st.iter().enumerate() {
        if x.rx_end.as_deref() != Some("eof") {
            push(format!("tcp.halfclose.not-eof.{hd}.{fam}"), format!("{streamer_conn} {i}: the {closer}'s half-close arrived as {:?} instead of EOF; {progress}", x.rx_end), false);
        }
    }
    for (j, x) in cl.iter().enumerate() {
        match x.rx_end.as_deref() {
            // it stopped reading by itself and closed
            Some("stopped") => {
                if x.rx.len() > s_len {
                    stats.after_halfclose_filler_read += 1;
                }
            }
            // the streamer never half-closes and never closes: nobody but the closer may end this connection
            other => push(
                format!("tcp.data.{sd}.truncated.{fam}.after-halfclose"),
                format!("{closer_conn} {j}: the {streamer} was still sending (it never closes or half-closes by itself), but the {closer}'s side of the stream ended with {other:?} after {} bytes, before the {closer} closed its connection; {progress}", x.rx.len()),
                false,
            ),
        }
    }
}

/// Payloads of distinct connections must be distinct, else cross-talk would be invisible.
pub fn self_test_payloads(lens: &[usize], conc: usize) -> Result<(), String> {
    for &l in lens {
        if l == 0 {
            continue;
        }
        for d in 0..2u8 {
            for a in 0..conc {
                if payload(l, a, d).len() != l {
                    return Err("payload length".into());
                }
                for b in 0..a {
                    if payload(l, a, d) == payload(l, b, d) {
                        return Err(format!("payloads of connections {a} and {b} coincide for length {l}"));
                    }
                }
            }
        }
    }
    let big = payload(70000, 0, 0);
    let mut seen = [false; 256];
    for b in &big {
        seen[usize::from(*b)] = true;
    }
    if seen.iter().any(|s| !s) {
        return Err("payload generator does not produce every byte value".into());
    }
    Ok(())
}
