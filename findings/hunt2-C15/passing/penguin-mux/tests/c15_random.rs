//! Random model check of C15 (bind requests) over a hand-driven link.
mod c15_common;
use c15_common::*;

use penguin_mux::config::Options;
use penguin_mux::frame::BindType;
use penguin_mux::ws::Message;
use penguin_mux::{BindRequest, Datagram, Multiplexor};
use std::sync::{Arc, Mutex};
use tokio::io::{AsyncReadExt, AsyncWriteExt};
use tokio::task::JoinHandle;

#[derive(Clone, Copy, Debug, PartialEq, Eq)]
enum Decision {
    Accept,
    Reject,
    Drop,
}

struct Shown {
    flow_id: u32,
    ty: BindType,
    host: Vec<u8>,
    port: u16,
    req: Option<BindRequest<'static>>,
    decision: Option<Decision>,
}

struct Req {
    side: usize,
    id: u32,
    ty: BindType,
    host: Vec<u8>,
    port: u16,
    handle: Option<JoinHandle<Result<bool, penguin_mux::Error>>>,
    result: Option<Result<bool, String>>,
    cancelled: bool,
    /// the connection had (possibly) ended when the result was seen
    ended_when_resolved: bool,
}

struct Side {
    mux: Option<Arc<Multiplexor<Scripted>>>,
    rng: Scripted,
    task: JoinHandle<Result<(), penguin_mux::Error>>,
    shown: Arc<Mutex<Vec<Shown>>>,
    fetchers: Vec<JoinHandle<()>>,
    others: Vec<JoinHandle<()>>,
    bind_enabled: bool,
    free_ids: Vec<u32>,
    banned: Vec<u32>,
    streams: Arc<Mutex<Vec<penguin_mux::MuxStream>>>,
    dgrams: Arc<Mutex<Vec<Datagram>>>,
}

fn make_side(sock: Sock, bind_buf: usize, n_fetchers: usize, pool: &[u32]) -> Side {
    let rng = Scripted::default();
    let opts = Options::new().bind_buffer_size(bind_buf);
    let (mux, taskdata) =
        Multiplexor::new_detailed::<_, std::time::Instant>(sock, opts, rng.clone());
    let mux = Arc::new(mux);
    let task = tokio::spawn(taskdata.into_task());
    let shown: Arc<Mutex<Vec<Shown>>> = Arc::default();
    let mut fetchers = Vec::new();
    if bind_buf > 0 {
        for _ in 0..n_fetchers {
            let m = mux.clone();
            let s = shown.clone();
            fetchers.push(tokio::spawn(async move {
                while let Ok(r) = m.next_bind_request().await {
                    s.lock().unwrap().push(Shown {
                        flow_id: r.flow_id(),
                        ty: r.bind_type(),
                        host: r.host().to_vec(),
                        port: r.port(),
                        req: Some(r),
                        decision: None,
                    });
                }
            }));
        }
    }
    let streams: Arc<Mutex<Vec<penguin_mux::MuxStream>>> = Arc::default();
    let dgrams: Arc<Mutex<Vec<Datagram>>> = Arc::default();
    let mut others = Vec::new();
    {
        let m = mux.clone();
        let s = streams.clone();
        others.push(tokio::spawn(async move {
            while let Ok(st) = m.accept_stream_channel().await {
                s.lock().unwrap().push(st);
            }
        }));
        let m = mux.clone();
        let d = dgrams.clone();
        others.push(tokio::spawn(async move {
            while let Ok(dg) = m.get_datagram().await {
                d.lock().unwrap().push(dg);
            }
        }));
    }
    Side {
        mux: Some(mux),
        rng,
        task,
        shown,
        fetchers,
        others,
        bind_enabled: bind_buf > 0,
        free_ids: pool.to_vec(),
        banned: Vec::new(),
        streams,
        dgrams,
    }
}

fn fail(seed: u64, trace: &[String], msg: &str) -> ! {
    panic!("seed {seed}: {msg}\ntrace:\n{}", trace.join("\n"));
}

async fn run_case(seed: u64, cross: bool) {
    let mut xs = Xs(seed.wrapping_mul(0x9E37_79B9_7F4A_7C15) | 1);
    let mut trace: Vec<String> = Vec::new();
    let (sa, sb, a2b, b2a) = pair();
    let links = [a2b, b2a]; // links[s] carries what side s sends
    let pool: Vec<u32> = vec![1, 2, 3, 4];
    let bufs = [
        [0usize, 1, 2, 16][xs.below(4) as usize],
        [0usize, 1, 2, 16][xs.below(4) as usize],
    ];
    let nf = [1 + xs.below(3) as usize, 1 + xs.below(3) as usize];
    trace.push(format!("bufs {bufs:?} fetchers {nf:?}"));
    let mut sides = vec![
        make_side(sa, bufs[0], nf[0], &pool),
        make_side(sb, bufs[1], nf[1], &pool),
    ];
    let mut reqs: Vec<Req> = Vec::new();
    let mut serial = 0u32;
    let mut ended = false;
    let mut next_stream_id = 1000u32;
    let mut own_streams: [Vec<JoinHandle<Option<penguin_mux::MuxStream>>>; 2] =
        [Vec::new(), Vec::new()];
    let mut open_streams: [Vec<penguin_mux::MuxStream>; 2] = [Vec::new(), Vec::new()];
    let steps = 10 + xs.below(60);
    let end_at = if xs.chance(1, 2) {
        Some(xs.below(steps))
    } else {
        None
    };

    for step in 0..steps {
        if Some(step) == end_at && !ended {
            // connection end
            let kind = xs.below(4);
            let s = xs.below(2) as usize;
            match kind {
                0 => {
                    // transport EOF towards side s
                    trace.push(format!("END eof towards {s}"));
                    set_eof(&links[1 - s]);
                }
                1 => {
                    trace.push(format!("END transport error towards {s}"));
                    inject(&links[1 - s], Err(()));
                }
                2 => {
                    trace.push(format!("END invalid frame towards {s}"));
                    inject(
                        &links[1 - s],
                        Ok(Message::Binary(bytes::Bytes::from_static(&[0xff, 0, 0, 0, 0, 0, 0]))),
                    );
                }
                _ => {
                    // drop the Multiplexor of side s if it has no pending request of its own
                    let has_pending = reqs
                        .iter()
                        .any(|r| r.side == s && r.result.is_none() && !r.cancelled);
                    if has_pending {
                        trace.push(format!("END eof towards {s} (instead of drop)"));
                        set_eof(&links[1 - s]);
                    } else {
                        trace.push(format!("END drop mux {s}"));
                        for f in sides[s].fetchers.drain(..) {
                            f.abort();
                        }
                        for f in sides[s].others.drain(..) {
                            f.abort();
                        }
                        for h in own_streams[s].drain(..) {
                            h.abort();
                        }
                        settle().await;
                        let m = sides[s].mux.take().unwrap();
                        assert_eq!(Arc::strong_count(&m), 1, "mux still shared");
                        drop(m);
                    }
                }
            }
            ended = true;
            settle().await;
        }
        let op = xs.below(100);
        if op < 25 {
            // new bind request
            let s = xs.below(2) as usize;
            let banned = sides[s].banned.clone();
            sides[s].free_ids.retain(|x| !banned.contains(x));
            if sides[s].mux.is_none() || sides[s].free_ids.is_empty() {
                continue;
            }
            let k = xs.below(sides[s].free_ids.len() as u64) as usize;
            let id = sides[s].free_ids.swap_remove(k);
            serial += 1;
            let host = match xs.below(4) {
                0 => format!("h{serial}").into_bytes(),
                1 => {
                    let mut v = format!("h{serial}-").into_bytes();
                    v.extend((0..xs.below(300)).map(|i| (i % 251) as u8));
                    v
                }
                2 => {
                    let mut v = vec![0u8, 0xff, 0x80];
                    v.extend(format!("h{serial}").into_bytes());
                    v
                }
                _ => format!("[::{serial}]").into_bytes(),
            };
            let port = [0u16, 1, 80, 65535, xs.below(65536) as u16][xs.below(5) as usize];
            let ty = if xs.chance(1, 2) {
                BindType::Stream
            } else {
                BindType::Datagram
            };
            let before = sides[s].rng.fallback_draws();
            sides[s].rng.push(id);
            let m = sides[s].mux.clone().unwrap();
            let h2 = host.clone();
            let handle = tokio::spawn(async move { m.request_bind(&h2, port, ty).await });
            settle().await;
            trace.push(format!(
                "side {s} request_bind id {id} serial {serial} port {port} {ty:?}"
            ));
            if sides[s].rng.pending() != 0 {
                fail(seed, &trace, "scripted id was not drawn");
            }
            // (a request on an ended connection fails with `Closed` and leaves its slot behind:
            // harmless, the connection is over)
            if !ended && sides[s].rng.fallback_draws() != before {
                fail(
                    seed,
                    &trace,
                    &format!("flow id {id} of side {s} was not free for reuse"),
                );
            }
            reqs.push(Req {
                side: s,
                id,
                ty,
                host,
                port,
                handle: Some(handle),
                result: None,
                cancelled: false,
                ended_when_resolved: false,
            });
        } else if op < 55 {
            // deliver some frames
            let d = xs.below(2) as usize;
            let n = 1 + xs.below(4) as usize;
            let moved = deliver(&links[d], n);
            trace.push(format!("deliver {moved} from side {d}"));
            settle().await;
        } else if op < 80 {
            // answer a shown request
            let s = xs.below(2) as usize;
            let mut shown = sides[s].shown.lock().unwrap();
            let cands: Vec<usize> = shown
                .iter()
                .enumerate()
                .filter(|(_, x)| x.req.is_some())
                .map(|(i, _)| i)
                .collect();
            if cands.is_empty() {
                continue;
            }
            let i = cands[xs.below(cands.len() as u64) as usize];
            let dec = [Decision::Accept, Decision::Reject, Decision::Drop][xs.below(3) as usize];
            let r = shown[i].req.take().unwrap();
            shown[i].decision = Some(dec);
            trace.push(format!(
                "side {s} answers shown[{i}] id {} with {dec:?}",
                shown[i].flow_id
            ));
            match dec {
                Decision::Accept => {
                    let _ = r.reply(true);
                }
                Decision::Reject => {
                    let _ = r.reply(false);
                }
                Decision::Drop => {}
            }
            drop(r);
            drop(shown);
            settle().await;
        } else if op < 84 {
            // cancel a pending request
            let cands: Vec<usize> = reqs
                .iter()
                .enumerate()
                .filter(|(_, r)| r.result.is_none() && !r.cancelled)
                .map(|(i, _)| i)
                .collect();
            if cands.is_empty() {
                continue;
            }
            let i = cands[xs.below(cands.len() as u64) as usize];
            if reqs[i].handle.as_ref().unwrap().is_finished() {
                continue;
            }
            reqs[i].handle.as_ref().unwrap().abort();
            reqs[i].cancelled = true;
            trace.push(format!("cancel request {i} (id {})", reqs[i].id));
            settle().await;
        } else if op < 90 {
            // datagram, possibly under the id of a pending bind
            let s = xs.below(2) as usize;
            let Some(m) = sides[s].mux.clone() else {
                continue;
            };
            let fid = if xs.chance(1, 2) {
                1 + xs.below(4) as u32
            } else {
                xs.next() as u32
            };
            let _ = m
                .send_datagram(Datagram {
                    flow_id: fid,
                    target_host: bytes::Bytes::from_static(b"dg"),
                    target_port: 53,
                    data: bytes::Bytes::from_static(b"payload"),
                })
                .await;
            trace.push(format!("side {s} datagram flow {fid}"));
            settle().await;
        } else if op < 94 {
            // open a stream on an id outside the pool
            let s = xs.below(2) as usize;
            let Some(m) = sides[s].mux.clone() else {
                continue;
            };
            next_stream_id += 1;
            let banned = sides[s].banned.clone();
            sides[s].free_ids.retain(|x| !banned.contains(x));
            let sid = if cross && !ended && !sides[s].free_ids.is_empty() && xs.chance(1, 2) {
                // a Connect under an id of the bind pool: may cross a Bind of the peer under
                // the same id. The id is never used for binds again on either side.
                let k = xs.below(sides[s].free_ids.len() as u64) as usize;
                let id = sides[s].free_ids.swap_remove(k);
                sides[0].banned.push(id);
                sides[1].banned.push(id);
                id
            } else {
                next_stream_id
            };
            sides[s].rng.push(sid);
            own_streams[s].push(tokio::spawn(async move {
                m.new_stream_channel(b"x", 1).await.ok()
            }));
            trace.push(format!("side {s} opens stream {sid}"));
            settle().await;
            // a rejected stream request would consume more ids: keep the queue clean
            sides[s].rng.q.lock().unwrap().clear();
        } else {
            // stream traffic
            let s = xs.below(2) as usize;
            // collect established streams
            let mut i = 0;
            while i < own_streams[s].len() {
                if own_streams[s][i].is_finished() {
                    let h = own_streams[s].swap_remove(i);
                    if let Ok(Some(st)) = h.await {
                        open_streams[s].push(st);
                    }
                } else {
                    i += 1;
                }
            }
            let accepted: Vec<_> = sides[s].streams.lock().unwrap().drain(..).collect();
            open_streams[s].extend(accepted);
            if open_streams[s].is_empty() {
                continue;
            }
            let k = xs.below(open_streams[s].len() as u64) as usize;
            match xs.below(4) {
                0 => {
                    let _ = open_streams[s][k].write_all(b"hello").await;
                    trace.push(format!("side {s} writes on stream"));
                }
                1 => {
                    let mut buf = [0u8; 16];
                    let _ = tokio::time::timeout(
                        std::time::Duration::from_millis(0),
                        open_streams[s][k].read(&mut buf),
                    )
                    .await;
                    trace.push(format!("side {s} reads on stream"));
                }
                2 => {
                    let _ = open_streams[s][k].shutdown().await;
                    trace.push(format!("side {s} shuts down a stream"));
                }
                _ => {
                    let st = open_streams[s].swap_remove(k);
                    drop(st);
                    trace.push(format!("side {s} drops a stream"));
                }
            }
            settle().await;
        }
        check(seed, &trace, &mut reqs, &mut sides, ended, false).await;
    }
    // Finale: deliver everything, answer nothing more
    for _ in 0..50 {
        let a = deliver(&links[0], usize::MAX);
        settle().await;
        let b = deliver(&links[1], usize::MAX);
        settle().await;
        if a + b == 0 {
            break;
        }
    }
    trace.push("finale: all delivered".to_string());
    check(seed, &trace, &mut reqs, &mut sides, ended, true).await;
    if !ended {
        // Now end the connection: every unresolved request must resolve
        set_eof(&links[0]);
        set_eof(&links[1]);
        for _ in 0..10 {
            deliver(&links[0], usize::MAX);
            deliver(&links[1], usize::MAX);
            settle().await;
        }
        trace.push("finale: connection ended".to_string());
        check(seed, &trace, &mut reqs, &mut sides, true, true).await;
    }
    for (i, r) in reqs.iter().enumerate() {
        if r.result.is_none() && !r.cancelled {
            fail(
                seed,
                &trace,
                &format!("request {i} (id {}) never resolved after the end", r.id),
            );
        }
    }
    for s in &mut sides {
        for f in s.fetchers.drain(..) {
            f.abort();
        }
        for f in s.others.drain(..) {
            f.abort();
        }
        s.task.abort();
    }
}

async fn check(
    seed: u64,
    trace: &[String],
    reqs: &mut [Req],
    sides: &mut [Side],
    ended: bool,
    quiescent: bool,
) {
    // 1. what the applications were shown
    for s in 0..2 {
        let shown = sides[s].shown.lock().unwrap();
        for (i, x) in shown.iter().enumerate() {
            // must match exactly one request of the peer by host (hosts are unique)
            let m: Vec<&Req> = reqs
                .iter()
                .filter(|r| r.side == 1 - s && r.host == x.host)
                .collect();
            if m.len() != 1 {
                fail(
                    seed,
                    trace,
                    &format!("side {s} shown[{i}] host {:?} matches {} requests", x.host, m.len()),
                );
            }
            let r = m[0];
            if r.id != x.flow_id || r.ty != x.ty || r.port != x.port {
                fail(
                    seed,
                    trace,
                    &format!(
                        "side {s} shown[{i}] differs from the request: id {} vs {}, port {} vs {}, {:?} vs {:?}",
                        x.flow_id, r.id, x.port, r.port, x.ty, r.ty
                    ),
                );
            }
            // shown at most once
            if shown.iter().filter(|y| y.host == x.host).count() != 1 {
                fail(seed, trace, &format!("side {s} request shown twice"));
            }
        }
    }
    // 2. results
    for i in 0..reqs.len() {
        if reqs[i].result.is_some() || reqs[i].cancelled {
            continue;
        }
        if !reqs[i].handle.as_ref().unwrap().is_finished() {
            continue;
        }
        let h = reqs[i].handle.take().unwrap();
        let res = h.await.expect("request task panicked");
        let res = res.map_err(|e| format!("{e:?}"));
        let s = reqs[i].side;
        let peer = 1 - s;
        let decision = {
            let shown = sides[peer].shown.lock().unwrap();
            shown
                .iter()
                .find(|x| x.host == reqs[i].host)
                .and_then(|x| x.decision)
        };
        match (&res, decision) {
            (Ok(true), Some(Decision::Accept)) => {}
            (Ok(true), d) => fail(
                seed,
                trace,
                &format!(
                    "request {i} (side {s} id {}) resolved TRUE but the peer's decision is {d:?}",
                    reqs[i].id
                ),
            ),
            (Ok(false), Some(Decision::Reject | Decision::Drop)) => {}
            (Ok(false), _) if !sides[peer].bind_enabled => {}
            (Ok(false), d) => {
                if !ended {
                    fail(
                        seed,
                        trace,
                        &format!(
                            "request {i} (side {s} id {}) resolved FALSE on a live connection, decision {d:?}",
                            reqs[i].id
                        ),
                    );
                }
            }
            (Err(e), _) => {
                if !ended || !e.contains("Closed") {
                    fail(
                        seed,
                        trace,
                        &format!("request {i} (side {s} id {}) resolved {e}", reqs[i].id),
                    );
                }
            }
        }
        reqs[i].ended_when_resolved = ended;
        reqs[i].result = Some(res);
        // the id is free for reuse now
        let id = reqs[i].id;
        sides[s].free_ids.push(id);
    }
    // 3. at quiescence on a live connection every decided request is resolved with the decision
    if quiescent && !ended {
        for (i, r) in reqs.iter().enumerate() {
            if r.cancelled {
                continue;
            }
            let peer = 1 - r.side;
            let decision = {
                let shown = sides[peer].shown.lock().unwrap();
                shown
                    .iter()
                    .find(|x| x.host == r.host)
                    .map(|x| x.decision)
            };
            if !sides[peer].bind_enabled {
                if r.result != Some(Ok(false)) {
                    fail(seed, trace, &format!("request {i} to a bind-disabled peer: {:?}", r.result));
                }
                continue;
            }
            match decision {
                None => fail(seed, trace, &format!("request {i} was never shown to the peer")),
                Some(None) => {
                    if r.result.is_some() {
                        fail(seed, trace, &format!("request {i} resolved without a decision: {:?}", r.result));
                    }
                }
                Some(Some(Decision::Accept)) => {
                    if r.result != Some(Ok(true)) {
                        fail(seed, trace, &format!("request {i} accepted but result {:?}", r.result));
                    }
                }
                Some(Some(_)) => {
                    if r.result != Some(Ok(false)) {
                        fail(seed, trace, &format!("request {i} rejected but result {:?}", r.result));
                    }
                }
            }
        }
    }
}

#[test]
fn c15_random_model() {
    let n: u64 = std::env::var("C15_SEEDS")
        .ok()
        .and_then(|s| s.parse().ok())
        .unwrap_or(2000);
    let start: u64 = std::env::var("C15_START")
        .ok()
        .and_then(|s| s.parse().ok())
        .unwrap_or(1);
    let rt = tokio::runtime::Builder::new_current_thread()
        .enable_time()
        .build()
        .unwrap();
    for seed in start..start + n {
        rt.block_on(run_case(seed, seed % 2 == 0));
    }
}
