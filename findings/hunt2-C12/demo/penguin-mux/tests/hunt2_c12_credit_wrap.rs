//! C12 (second round), finding 1: the send-credit counter wraps around.
//!
//! `EstablishedStreamData::acknowledge` adds the granted amount with a wrapping
//! `fetch_add`. A peer that opened the flow with the largest window (`rwnd = u32::MAX`,
//! which `Options::rwnd` accepts) and then grants a few units more (PROTOCOL.md: "An
//! implementation MAY choose to send `Acknowledge` with a larger `rwnd` value than what is
//! advertised initially") leaves the writer with `grants - 2^32` units: here 4 instead of
//! 4 294 967 300. The fifth write then waits for credit for ever although the peer has
//! granted (and never taken back) billions of units.
//
// SPDX-License-Identifier: Apache-2.0 OR GPL-3.0-or-later

use bytes::Bytes;
use penguin_mux::config::Options;
use penguin_mux::frame::{Frame, OpCode};
use penguin_mux::ws::{Message, WebSocket};
use penguin_mux::{Datagram, Multiplexor};
use std::task::{Context, Poll};
use std::time::Duration;
use tokio::io::AsyncWriteExt;
use tokio::sync::mpsc;

/// One end of an in-memory WebSocket; the test plays the peer on the raw channels.
struct ChanWs {
    tx: Option<mpsc::UnboundedSender<Message>>,
    rx: mpsc::UnboundedReceiver<Message>,
}

impl WebSocket for ChanWs {
    fn poll_ready_unpin(&mut self, _: &mut Context<'_>) -> Poll<Result<(), penguin_mux::Error>> {
        Poll::Ready(self.tx.as_ref().map(|_| ()).ok_or(penguin_mux::Error::Closed))
    }
    fn start_send_unpin(&mut self, item: Message) -> Result<(), penguin_mux::Error> {
        self.tx
            .as_ref()
            .ok_or(penguin_mux::Error::Closed)?
            .send(item)
            .or(Err(penguin_mux::Error::Closed))
    }
    fn poll_flush_unpin(&mut self, _: &mut Context<'_>) -> Poll<Result<(), penguin_mux::Error>> {
        Poll::Ready(Ok(()))
    }
    fn poll_close_unpin(&mut self, _: &mut Context<'_>) -> Poll<Result<(), penguin_mux::Error>> {
        self.tx.take();
        Poll::Ready(Ok(()))
    }
    fn poll_next_unpin(
        &mut self,
        cx: &mut Context<'_>,
    ) -> Poll<Option<Result<Message, penguin_mux::Error>>> {
        self.rx.poll_recv(cx).map(|m| m.map(Ok))
    }
}

#[tokio::test(flavor = "multi_thread", worker_threads = 2)]
async fn window_grown_beyond_u32_max_leaves_writer_without_credit() {
    let (to_mux, mux_rx) = mpsc::unbounded_channel::<Message>();
    let (mux_tx, mut from_mux) = mpsc::unbounded_channel::<Message>();
    let mux = Multiplexor::new_with_opt(
        ChanWs {
            tx: Some(mux_tx),
            rx: mux_rx,
        },
        Options::new(),
        None,
    );

    // The scripted peer: answer the `Connect` with the largest window, then grow it by 5.
    let peer = async {
        let Some(Message::Binary(b)) = from_mux.recv().await else {
            panic!("expected the `Connect` frame");
        };
        let connect = Frame::try_from(b).expect("frame");
        assert_eq!(connect.opcode(), OpCode::Connect);
        let id = connect.id;
        to_mux
            .send(Frame::new_acknowledge(id, u32::MAX).into())
            .unwrap();
        to_mux.send(Frame::new_acknowledge(id, 5).into()).unwrap();
        // A marker behind the grant: once it comes out of `get_datagram` the connection
        // task has processed everything in front of it.
        to_mux
            .send(Frame::new_datagram(7, b"marker", 1, b"m").into())
            .unwrap();
        id
    };
    let (stream, id) = tokio::join!(mux.new_stream_channel(b"host", 80), peer);
    let mut stream = stream.expect("stream");
    let Datagram { flow_id, .. } = mux.get_datagram().await.expect("marker");
    assert_eq!(flow_id, 7);

    // Granted so far: 4 294 967 295 + 5 units, none used. Ten one-frame writes need ten.
    for i in 0..10 {
        let r = tokio::time::timeout(Duration::from_secs(2), stream.write_all(b"x")).await;
        assert!(
            matches!(r, Ok(Ok(()))),
            "write #{} got {r:?}: the writer waits for credit although the peer granted \
             u32::MAX + 5 units and {i} were used",
            i + 1
        );
        let Some(Message::Binary(b)) = from_mux.recv().await else {
            panic!("expected a `Push` frame");
        };
        let f = Frame::try_from(Bytes::from(b)).expect("frame");
        assert_eq!((f.id, f.opcode()), (id, OpCode::Push));
    }
}
