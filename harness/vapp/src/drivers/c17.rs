//! C17 — TLS peers are authenticated exactly as configured.
//!
//! Bounded-exhaustive enumeration of the configuration matrix.  The subject is
//! `rusty_penguin_lib::tls::{tls_connect, make_tls_identity, make_server_config,
//! make_tls_identity_from_pem, reload_tls_identity, reload_tls_identity_from_pem}`;
//! client and server halves are joined by an in-memory `tokio::io::duplex`.
//! The oracle is a truth table written from the property statement: which
//! certificate was issued by which CA is known *by construction* (the harness
//! creates every CA, leaf and self-signed certificate itself with rcgen).
//!
//! The operating-system trust store is a controlled dimension: SSL_CERT_FILE (honoured by `rustls-native-certs` on
//! every load) is pointed at a bundle holding one harness-made CA, "os-ca", for the whole run (see `OsStore`), so
//! "system roots" has a known content and certificates "issued by an OS-trusted CA" exist.
//!
//! Eight passes:
//!  1. `matrix`  – subject client x subject server, the full product of the dimensions;
//!  2. `probe`   – a harness-owned rustls client (TLS 1.2 and 1.3, verification off,
//!     recording whether the server sent a CertificateRequest) against every subject
//!     server configuration: "a server without a client CA never asks for a certificate";
//!  3. `reload`  – histories  identity A -> handshake -> reload to B -> handshakes, with
//!     the first connection kept open across the reload;
//!  4. `client-name` – the crate's real client loop (`client::client_main_inner`) over loopback
//!     TCP against a harness listener: the name it verifies / sends as SNI is the documented
//!     choice `--tls-server-name` > `--hostname` > URL host;
//!  5. `signal-reload` – the real `server::server_main` on loopback TCP; histories of rewriting its live
//!     certificate/key files (well-formed or not) and raising SIGUSR1, watched by a harness TLS client; sub-pass
//!     `symlink`: the server's arguments come from the real command-line parser, the configured paths go through
//!     symbolic links and the identity (with its client CA) is rotated by re-pointing the links atomically;
//!  6. `returning-client` – reload histories seen by ONE client that keeps its TLS session state (one reused
//!     `rustls::ClientConfig`), through the library calls (in memory, the server side accepting the way `server_main`
//!     does) and through SIGUSR1 on a running `server_main`: a handshake after a reload must be shown the new
//!     certificate and is admitted iff the client presents a certificate under the new client CA, resumable session or not.
//!  7. `os-trust-store` – the OS store is consulted iff no CA file is configured: a CA file that holds no certificate
//!     {empty, key only, DER, truncated PEM} means "nobody is trusted" (client: no server is reached; server: start-up /
//!     reload refused or every client rejected), in particular NOT "whoever the OS store trusts"; controls: with no CA
//!     file a server certificate under os-ca is accepted (else MACHINERY: the variable does not feed the built-in roots).
//!  8. `provider-matrix` – crypto provider {default aws-lc-rs, "Chromium-like" (PENGUIN_TLS_CHROMIUM_LIKE)} x key type of the
//!     server leaf x key type of the client leaf as dimensions of a reduced core matrix, judged by the reference predicate
//!     of pass 1. A provider is installed once per process: the Chromium-like half is run by a child process of this
//!     binary and its findings are merged under the key prefix `chromium.`.

use crate::Args;
use crate::report::Report;
use rcgen::{BasicConstraints, CertificateParams, DnType, ExtendedKeyUsagePurpose, IsCa, Issuer, KeyPair, KeyUsagePurpose};
use rustls::client::danger::{HandshakeSignatureValid, ServerCertVerified, ServerCertVerifier};
use rustls::crypto::CryptoProvider;
use rustls::pki_types::{CertificateDer, PrivateKeyDer, PrivatePkcs8KeyDer, ServerName, UnixTime};
use rustls::sign::CertifiedKey;
use rustls::{ClientConfig, DigitallySignedStruct, ServerConfig, SignatureScheme};
use rusty_penguin_lib::tls;
use serde_json::{Value, json};
use std::collections::HashSet;
use std::panic::AssertUnwindSafe;
use std::sync::atomic::{AtomicBool, AtomicU64, Ordering};
use std::sync::{Arc, Mutex};
use std::time::Duration;
use tokio::io::{AsyncRead, AsyncReadExt, AsyncWrite, AsyncWriteExt, DuplexStream};

// ---------------------------------------------------------------------------------------
// PKI material (all made by the harness; "issued by" is known by construction)
// ---------------------------------------------------------------------------------------

const ALGS: [&str; 4] = ["p256", "p384", "ed25519", "rsa2048"];

fn gen_key(alg: &str) -> KeyPair {
    match alg {
        "p256" => KeyPair::generate_for(&rcgen::PKCS_ECDSA_P256_SHA256),
        "p384" => KeyPair::generate_for(&rcgen::PKCS_ECDSA_P384_SHA384),
        "ed25519" => KeyPair::generate_for(&rcgen::PKCS_ED25519),
        "rsa2048" => KeyPair::generate_rsa_for(&rcgen::PKCS_RSA_SHA256, rcgen::RsaKeySize::_2048),
        other => panic!("unknown key algorithm {other}"),
    }
    .expect("key generation")
}

struct Ident {
    cert_path: String,
    key_path: String,
    cert_pem: String,
    key_pem: String,
    cert_der: Vec<u8>,
    key_der: Vec<u8>,
}

struct Ca {
    path: String,
    cert_pem: String,
    cert_der: Vec<u8>,
    issuer: Issuer<'static, KeyPair>,
}

/// Server certificate kinds (who vouches for it).
const SERVER_KINDS: [&str; 4] = ["trusted-ca", "other-ca", "self-signed", "trusted-ca-expired"];
/// Subject alternative names server certificates are made for.
const SANS: [&str; 3] = ["localhost", "other.test", "127.0.0.1"];
/// IPv6 literals as server names: the second is the first without its last group, which reads like a port number
const V6_SANS: [&str; 2] = ["fd00::1:2", "fd00::1"];
/// Client certificate kinds.
const CLIENT_KINDS: [&str; 4] = ["none", "client-ca", "other-ca", "self-signed"];
/// Roots handed to the client (`--tls-ca`); "system" = no file given.
const ROOTS: [&str; 3] = ["trusted-ca", "other-ca", "system"];
/// How the server configuration is constructed.
const CTORS: [&str; 3] = ["make_tls_identity", "make_server_config", "make_tls_identity_from_pem"];

struct Pki {
    _dir: tempfile::TempDir,
    dir_path: String,
    ca_trusted: Ca,
    ca_other: Ca,
    ca_client: Ca,
    /// the only CA of this key algorithm in the "operating-system trust store" (SSL_CERT_FILE); never handed to the subject
    /// as a file except in the controls that say so
    ca_os: Ca,
    /// (kind, san) -> identity; kind "trusted-ca-2" is a second, distinct trusted leaf (reload pass)
    servers: Vec<((String, String), Ident)>,
    /// kind -> identity
    clients: Vec<(String, Ident)>,
}

fn write(path: &str, content: impl AsRef<[u8]>) {
    std::fs::write(path, content).expect("write pem");
}

// ---------------------------------------------------------------------------------------
// The operating-system trust store is a controlled dimension: `rustls-native-certs` (0.8.4, the version the
// subject is built with) reads SSL_CERT_FILE and SSL_CERT_DIR on EVERY `load_native_certs()` call and, when either
// is set, loads from them INSTEAD of the locations probed on the machine. The whole process is dedicated to this
// check, so the variable is set once, before any TLS configuration is built: "system roots" (no `--tls-ca`) then
// means exactly {os-ca of every key algorithm of this run}, whatever the machine's real store holds.
// ---------------------------------------------------------------------------------------

struct OsStore {
    _dir: tempfile::TempDir,
    path: String,
}

impl OsStore {
    /// Creates the (still empty) bundle file and points the process's "OS trust store" at it.
    fn install() -> Result<Self, String> {
        let dir = tempfile::Builder::new().prefix("verif-c17-osstore-").tempdir().map_err(|e| format!("os trust store: tempdir: {e}"))?;
        let path = format!("{}/os-trust-store.pem", dir.path().to_str().ok_or("os trust store: tempdir is not UTF-8")?);
        std::fs::write(&path, "").map_err(|e| format!("os trust store: cannot create {path}: {e}"))?;
        // SAFETY: called at the very start of the driver; the only other thread alive is vcommon's watchdog, which
        // never touches the environment; the worker threads are spawned later.
        unsafe {
            std::env::set_var("SSL_CERT_FILE", &path);
            std::env::remove_var("SSL_CERT_DIR");
        }
        if std::env::var("SSL_CERT_FILE").ok().as_deref() != Some(path.as_str()) || std::env::var_os("SSL_CERT_DIR").is_some() {
            return Err("os trust store: SSL_CERT_FILE / SSL_CERT_DIR could not be set up".into());
        }
        Ok(Self { _dir: dir, path })
    }
    /// Adds one CA certificate (PEM) to the store; done while the key material is generated, before any handshake.
    fn add(&self, pem: &str) {
        use std::io::Write;
        let mut f = std::fs::OpenOptions::new().append(true).open(&self.path).expect("open os trust store");
        f.write_all(pem.as_bytes()).expect("append to os trust store");
    }
}

fn make_ca(dir: &str, name: &str, alg: &str) -> Ca {
    let mut p = CertificateParams::new(Vec::<String>::new()).expect("params");
    p.is_ca = IsCa::Ca(BasicConstraints::Unconstrained);
    p.distinguished_name.push(DnType::CommonName, format!("verif {name}"));
    p.distinguished_name.push(DnType::OrganizationName, format!("verif-{name}"));
    p.key_usages = vec![KeyUsagePurpose::DigitalSignature, KeyUsagePurpose::KeyCertSign, KeyUsagePurpose::CrlSign];
    let key = gen_key(alg);
    let cert = p.self_signed(&key).expect("ca cert");
    let path = format!("{dir}/{name}.pem");
    let cert_pem = cert.pem();
    write(&path, &cert_pem);
    Ca { path, cert_pem, cert_der: cert.der().to_vec(), issuer: Issuer::new(p, key) }
}

fn leaf_params(san: &str, cn: &str, eku: ExtendedKeyUsagePurpose, expired: bool) -> CertificateParams {
    let sans: Vec<String> = if san.is_empty() { vec![] } else { vec![san.to_string()] };
    let mut p = CertificateParams::new(sans).expect("params");
    p.distinguished_name = rcgen::DistinguishedName::new();
    p.distinguished_name.push(DnType::CommonName, cn);
    p.use_authority_key_identifier_extension = true;
    p.key_usages = vec![KeyUsagePurpose::DigitalSignature];
    p.extended_key_usages = vec![eku];
    if expired {
        p.not_before = rcgen::date_time_ymd(2000, 1, 1);
        p.not_after = rcgen::date_time_ymd(2001, 1, 1);
    }
    p
}

fn make_ident(dir: &str, file: &str, alg: &str, params: &CertificateParams, issuer: Option<&Ca>) -> Ident {
    make_ident_with_key(dir, file, &gen_key(alg), params, issuer)
}

/// As `make_ident`, for a key made earlier (the provider-matrix pass makes each leaf key once and certifies it in
/// several PKIs).
fn make_ident_with_key(dir: &str, file: &str, key: &KeyPair, params: &CertificateParams, issuer: Option<&Ca>) -> Ident {
    let cert = match issuer {
        Some(ca) => params.signed_by(key, &ca.issuer).expect("leaf"),
        None => params.self_signed(key).expect("self-signed"),
    };
    let cert_path = format!("{dir}/{file}.cert.pem");
    let key_path = format!("{dir}/{file}.key.pem");
    let cert_pem = cert.pem();
    let key_pem = key.serialize_pem();
    write(&cert_path, &cert_pem);
    write(&key_path, &key_pem);
    Ident { cert_path, key_path, cert_pem, key_pem, cert_der: cert.der().to_vec(), key_der: key.serialize_der() }
}

impl Pki {
    fn new(alg: &str, os_store: &OsStore) -> Self {
        let dir = tempfile::Builder::new().prefix("verif-c17-").tempdir().expect("tempdir");
        let d = dir.path().to_str().expect("utf8 tempdir").to_string();
        let ca_trusted = make_ca(&d, "ca-trusted", alg);
        let ca_other = make_ca(&d, "ca-other", alg);
        let ca_client = make_ca(&d, "ca-client", alg);
        let ca_os = make_ca(&d, "ca-os", alg);
        os_store.add(&ca_os.cert_pem);
        let mut servers = Vec::new();
        for san in SANS {
            for kind in ["trusted-ca", "trusted-ca-2", "other-ca", "self-signed", "trusted-ca-expired"] {
                let p = leaf_params(san, &format!("srv {kind} {san}"), ExtendedKeyUsagePurpose::ServerAuth, kind == "trusted-ca-expired");
                let issuer = match kind {
                    "trusted-ca" | "trusted-ca-2" | "trusted-ca-expired" => Some(&ca_trusted),
                    "other-ca" => Some(&ca_other),
                    _ => None,
                };
                let id = make_ident(&d, &format!("srv-{kind}-{san}"), alg, &p, issuer);
                servers.push(((kind.to_string(), san.to_string()), id));
            }
        }
        // server certificates for IPv6 literals whose last group reads like a port number (client-name pass only)
        for san in V6_SANS {
            let p = leaf_params(san, &format!("srv trusted-ca {san}"), ExtendedKeyUsagePurpose::ServerAuth, false);
            let id = make_ident(&d, &format!("srv-trusted-ca-{}", san.replace(':', "_")), alg, &p, Some(&ca_trusted));
            servers.push((("trusted-ca".to_string(), san.to_string()), id));
        }
        // a server certificate under the OS-trusted CA (os-trust-store pass only)
        let p = leaf_params("localhost", "srv os-ca localhost", ExtendedKeyUsagePurpose::ServerAuth, false);
        servers.push((("os-ca".to_string(), "localhost".to_string()), make_ident(&d, "srv-os-ca-localhost", alg, &p, Some(&ca_os))));
        let mut clients = Vec::new();
        for kind in ["client-ca", "other-ca", "self-signed", "os-ca"] {
            let p = leaf_params("", &format!("client {kind}"), ExtendedKeyUsagePurpose::ClientAuth, false);
            let issuer = match kind {
                "client-ca" => Some(&ca_client),
                "other-ca" => Some(&ca_other),
                "os-ca" => Some(&ca_os),
                _ => None,
            };
            clients.push((kind.to_string(), make_ident(&d, &format!("cli-{kind}"), alg, &p, issuer)));
        }
        Self { _dir: dir, dir_path: d, ca_trusted, ca_other, ca_client, ca_os, servers, clients }
    }
    fn server(&self, kind: &str, san: &str) -> &Ident {
        &self.servers.iter().find(|((k, s), _)| k == kind && s == san).unwrap_or_else(|| panic!("no server identity {kind}/{san}")).1
    }
    fn client(&self, kind: &str) -> Option<&Ident> {
        self.clients.iter().find(|(k, _)| k == kind).map(|x| &x.1)
    }
    fn roots_path(&self, roots: &str) -> Option<&str> {
        match roots {
            "trusted-ca" => Some(&self.ca_trusted.path),
            "other-ca" => Some(&self.ca_other.path),
            "os-ca" => Some(&self.ca_os.path),
            "system" => None,
            other => panic!("unknown roots {other}"),
        }
    }
}

// ---------------------------------------------------------------------------------------
// One handshake + echo
// ---------------------------------------------------------------------------------------

#[derive(Clone, Debug, PartialEq, Eq, Default)]
struct Obs {
    /// error text of building the server configuration (subject call), if it failed
    server_config_err: Option<String>,
    client_connect_ok: bool,
    client_err: String,
    server_accept_ok: bool,
    server_err: String,
    /// client -> server byte arrived and server -> client byte arrived
    echo_ok: bool,
    /// what the server's connection reports as the peer's certificates
    server_peer_certs: Option<Vec<Vec<u8>>>,
    /// end-entity certificate the client saw
    client_saw_cert: Option<Vec<u8>>,
    /// (probe only) the server sent a CertificateRequest
    asked_for_cert: Option<bool>,
    panicked: Option<String>,
    timed_out: bool,
}

impl Obs {
    fn success(&self) -> bool {
        self.client_connect_ok && self.server_accept_ok && self.echo_ok
    }
    /// Deterministic part (error texts may contain addresses etc.; they are stable here, but
    /// replay compares only the verdict-relevant fields).
    fn verdict_fields(&self) -> Value {
        json!({
            "server_config_err": self.server_config_err.is_some(),
            "client_connect_ok": self.client_connect_ok,
            "server_accept_ok": self.server_accept_ok,
            "echo_ok": self.echo_ok,
            "server_peer_certs": self.server_peer_certs.as_ref().map(Vec::len),
            "asked_for_cert": self.asked_for_cert,
            "panicked": self.panicked,
            "timed_out": self.timed_out,
        })
    }
    fn to_json(&self) -> Value {
        let mut v = self.verdict_fields();
        v["client_err"] = json!(self.client_err);
        v["server_err"] = json!(self.server_err);
        v["server_config_err_text"] = json!(self.server_config_err);
        v
    }
}

async fn server_half<IO: AsyncRead + AsyncWrite + Unpin>(io: IO, cfg: Arc<ServerConfig>) -> (Result<tokio_rustls::server::TlsStream<IO>, String>, Option<Vec<Vec<u8>>>, bool) {
    match tokio_rustls::TlsAcceptor::from(cfg).accept(io).await {
        Err(e) => (Err(e.to_string()), None, false),
        Ok(mut s) => {
            let certs = s.get_ref().1.peer_certificates().map(|c| c.iter().map(|x| x.to_vec()).collect::<Vec<_>>());
            let mut b = [0u8; 1];
            let ok = s.read_exact(&mut b).await.is_ok() && b[0] == b'c' && s.write_all(b"s").await.is_ok() && s.flush().await.is_ok();
            (Ok(s), certs, ok)
        }
    }
}

async fn echo_from_client<S: AsyncRead + AsyncWrite + Unpin>(s: &mut S) -> bool {
    let mut b = [0u8; 1];
    s.write_all(b"c").await.is_ok() && s.flush().await.is_ok() && s.read_exact(&mut b).await.is_ok() && b[0] == b's'
}

/// Build the server configuration through the chosen public constructor of the subject.
async fn build_server_config(ctor: &str, id: &Ident, client_ca: Option<&str>) -> Result<(Option<tls::TlsIdentity>, Arc<ServerConfig>), String> {
    match ctor {
        "make_tls_identity" => {
            let ident = tls::make_tls_identity(&id.cert_path, &id.key_path, client_ca).await.map_err(|e| e.to_string())?;
            let cfg = ident.load_full();
            Ok((Some(ident), cfg))
        }
        "make_server_config" => {
            let cfg = tls::make_server_config(&id.cert_path, &id.key_path, client_ca).await.map_err(|e| e.to_string())?;
            Ok((None, Arc::new(cfg)))
        }
        "make_tls_identity_from_pem" => {
            let ident = tls::make_tls_identity_from_pem(id.cert_pem.clone(), id.key_pem.clone(), client_ca).await.map_err(|e| e.to_string())?;
            let cfg = ident.load_full();
            Ok((Some(ident), cfg))
        }
        other => panic!("unknown constructor {other}"),
    }
}

type ClientStream = tokio_rustls::TlsStream<DuplexStream>;
type ServerStream = tokio_rustls::server::TlsStream<DuplexStream>;

/// Subject client against a given server configuration. Returns the observation and, on
/// success, both live streams (the reload pass keeps them).
async fn subject_handshake(
    cfg: Arc<ServerConfig>,
    req_name: &str,
    client_id: Option<&Ident>,
    roots: Option<&str>,
    skip: bool,
) -> (Obs, Option<(ClientStream, ServerStream)>) {
    subject_handshake_via("tls_connect", cfg, req_name, client_id, roots, skip).await
}

/// The two public ways of getting the subject's client side: `tls_connect` (what the client loop calls), or
/// `make_client_config` with the connection made by the harness from the configuration it returns.
const CLIENT_VIA: [&str; 2] = ["tls_connect", "make_client_config"];

async fn subject_handshake_via(
    via: &str,
    cfg: Arc<ServerConfig>,
    req_name: &str,
    client_id: Option<&Ident>,
    roots: Option<&str>,
    skip: bool,
) -> (Obs, Option<(ClientStream, ServerStream)>) {
    let (cio, sio) = tokio::io::duplex(1 << 16);
    let (cert, key) = (client_id.map(|c| c.cert_path.as_str()), client_id.map(|c| c.key_path.as_str()));
    let client = async {
        let connected: Result<ClientStream, String> = match via {
            "tls_connect" => tls::tls_connect(cio, req_name, cert, key, roots, skip).await.map_err(|e| e.to_string()),
            "make_client_config" => match tls::make_client_config(cert, key, roots, skip, Some(&["http/1.1"])).await {
                Err(e) => Err(e.to_string()),
                Ok(ccfg) => match ServerName::try_from(req_name.to_string()) {
                    Err(e) => Err(e.to_string()),
                    Ok(name) => tokio_rustls::TlsConnector::from(Arc::new(ccfg)).connect(name, cio).await.map(tokio_rustls::TlsStream::Client).map_err(|e| e.to_string()),
                },
            },
            other => panic!("unknown client entry point {other}"),
        };
        match connected {
            Err(e) => (Err(e), None, false),
            Ok(mut s) => {
                let saw = s.get_ref().1.peer_certificates().and_then(|c| c.first().map(|x| x.to_vec()));
                let ok = echo_from_client(&mut s).await;
                (Ok(s), saw, ok)
            }
        }
    };
    let server = server_half(sio, cfg);
    let mut obs = Obs::default();
    let joined = tokio::time::timeout(Duration::from_secs(30), async { tokio::join!(client, server) }).await;
    let Ok(((c_res, c_saw, c_echo), (s_res, s_certs, s_echo))) = joined else {
        obs.timed_out = true;
        return (obs, None);
    };
    obs.client_connect_ok = c_res.is_ok();
    obs.server_accept_ok = s_res.is_ok();
    obs.echo_ok = c_echo && s_echo;
    obs.client_saw_cert = c_saw;
    obs.server_peer_certs = s_certs;
    let mut streams = None;
    match (c_res, s_res) {
        (Ok(c), Ok(s)) => streams = Some((c, s)),
        (c, s) => {
            if let Err(e) = c {
                obs.client_err = e;
            }
            if let Err(e) = s {
                obs.server_err = e;
            }
        }
    }
    (obs, streams)
}

// ---- harness-owned probing client --------------------------------------------------------

#[derive(Debug)]
struct AcceptAnyServerCert(Arc<CryptoProvider>);

impl ServerCertVerifier for AcceptAnyServerCert {
    fn verify_server_cert(&self, _: &CertificateDer<'_>, _: &[CertificateDer<'_>], _: &ServerName<'_>, _: &[u8], _: UnixTime) -> Result<ServerCertVerified, rustls::Error> {
        Ok(ServerCertVerified::assertion())
    }
    fn verify_tls12_signature(&self, m: &[u8], c: &CertificateDer<'_>, d: &DigitallySignedStruct) -> Result<HandshakeSignatureValid, rustls::Error> {
        rustls::crypto::verify_tls12_signature(m, c, d, &self.0.signature_verification_algorithms)
    }
    fn verify_tls13_signature(&self, m: &[u8], c: &CertificateDer<'_>, d: &DigitallySignedStruct) -> Result<HandshakeSignatureValid, rustls::Error> {
        rustls::crypto::verify_tls13_signature(m, c, d, &self.0.signature_verification_algorithms)
    }
    fn supported_verify_schemes(&self) -> Vec<SignatureScheme> {
        self.0.signature_verification_algorithms.supported_schemes()
    }
}

/// Records whether the server asked for a client certificate (rustls calls `resolve` exactly
/// when a CertificateRequest was received).
#[derive(Debug)]
struct RecordingResolver {
    asked: AtomicBool,
    key: Option<Arc<CertifiedKey>>,
}

impl rustls::client::ResolvesClientCert for RecordingResolver {
    fn resolve(&self, _hints: &[&[u8]], _schemes: &[SignatureScheme]) -> Option<Arc<CertifiedKey>> {
        self.asked.store(true, Ordering::SeqCst);
        self.key.clone()
    }
    fn has_certs(&self) -> bool {
        true
    }
}

fn provider() -> Arc<CryptoProvider> {
    CryptoProvider::get_default().expect("crypto provider installed").clone()
}

async fn probe_handshake(cfg: Arc<ServerConfig>, tls13: bool, client_id: Option<&Ident>) -> Obs {
    let prov = provider();
    let key = client_id.map(|id| {
        let k = PrivateKeyDer::Pkcs8(PrivatePkcs8KeyDer::from(id.key_der.clone()));
        Arc::new(CertifiedKey::from_der(vec![CertificateDer::from(id.cert_der.clone())], k, &prov).expect("certified key"))
    });
    let resolver = Arc::new(RecordingResolver { asked: AtomicBool::new(false), key });
    let versions: &[&rustls::SupportedProtocolVersion] = if tls13 { &[&rustls::version::TLS13] } else { &[&rustls::version::TLS12] };
    let ccfg = ClientConfig::builder_with_provider(prov.clone())
        .with_protocol_versions(versions)
        .expect("protocol versions")
        .dangerous()
        .with_custom_certificate_verifier(Arc::new(AcceptAnyServerCert(prov)))
        .with_client_cert_resolver(resolver.clone());
    let (cio, sio) = tokio::io::duplex(1 << 16);
    let client = async {
        let conn = tokio_rustls::TlsConnector::from(Arc::new(ccfg));
        match conn.connect(ServerName::try_from("localhost").expect("name"), cio).await {
            Err(e) => (Err(e.to_string()), false),
            Ok(mut s) => {
                let ok = echo_from_client(&mut s).await;
                (Ok(()), ok)
            }
        }
    };
    let server = server_half(sio, cfg);
    let mut obs = Obs::default();
    let joined = tokio::time::timeout(Duration::from_secs(30), async { tokio::join!(client, server) }).await;
    let Ok(((c_res, c_echo), (s_res, s_certs, s_echo))) = joined else {
        obs.timed_out = true;
        return obs;
    };
    obs.client_connect_ok = c_res.is_ok();
    obs.client_err = c_res.err().unwrap_or_default();
    obs.server_accept_ok = s_res.is_ok();
    obs.server_err = s_res.err().unwrap_or_default();
    obs.echo_ok = c_echo && s_echo;
    obs.server_peer_certs = s_certs;
    obs.asked_for_cert = Some(resolver.asked.load(Ordering::SeqCst));
    obs
}

// ---------------------------------------------------------------------------------------
// Cases and the reference truth table
// ---------------------------------------------------------------------------------------

#[derive(Clone, Debug, PartialEq, Eq, Hash)]
struct MatrixCase {
    alg: String,
    server_cert: String,
    san: String,
    req_name: String,
    skip: bool,
    roots: String,
    client_cert: String,
    server_client_ca: bool,
    ctor: String,
}

impl MatrixCase {
    fn to_json(&self) -> Value {
        json!({"kind": "matrix", "alg": self.alg, "server_cert": self.server_cert, "san": self.san, "req_name": self.req_name,
               "skip_verify": self.skip, "client_roots": self.roots, "client_cert": self.client_cert,
               "server_client_ca": self.server_client_ca, "ctor": self.ctor})
    }
    fn from_json(v: &Value) -> Self {
        let s = |k: &str| v[k].as_str().unwrap_or_else(|| panic!("replay: missing {k}")).to_string();
        Self {
            alg: s("alg"),
            server_cert: s("server_cert"),
            san: s("san"),
            req_name: s("req_name"),
            skip: v["skip_verify"].as_bool().expect("skip_verify"),
            roots: s("client_roots"),
            client_cert: s("client_cert"),
            server_client_ca: v["server_client_ca"].as_bool().expect("server_client_ca"),
            ctor: s("ctor"),
        }
    }
}

/// Reference: why (if at all) must a verifying client refuse this server certificate?
/// Written from the statement: the chain must validate against the roots the client was given
/// (issuer among them, inside its validity period) and the certificate must match the name.
fn server_cert_defect(server_cert: &str, san: &str, req_name: &str, roots: &str) -> Option<&'static str> {
    let issuer = match server_cert {
        "trusted-ca" | "trusted-ca-2" | "trusted-ca-expired" => "trusted-ca",
        "other-ca" => "other-ca",
        "os-ca" => "os-ca",
        _ => "self",
    };
    // "system" = no file given = the OS trust store, which holds os-ca and nothing else (SSL_CERT_FILE, see `OsStore`)
    let given = if roots == "system" { "os-ca" } else { roots };
    if issuer != given {
        return Some("untrusted-chain");
    }
    if server_cert == "trusted-ca-expired" {
        return Some("expired");
    }
    if san != req_name {
        return Some("name-mismatch");
    }
    None
}

/// Reference: may this client complete a handshake with a server configured like that?
fn client_cert_defect(client_cert: &str, server_client_ca: bool) -> Option<&'static str> {
    if !server_client_ca {
        return None;
    }
    match client_cert {
        "client-ca" => None,
        "none" => Some("no-client-cert"),
        "other-ca" => Some("client-cert-other-ca"),
        "self-signed" => Some("client-cert-self-signed"),
        // issued by the CA of the OS trust store, which is not the configured client CA
        "os-ca" => Some("client-cert-os-trusted-ca"),
        other => panic!("unknown client cert kind {other}"),
    }
}

struct Sink<'a> {
    rep: &'a Mutex<Report>,
}

impl Sink<'_> {
    fn viol(&self, key: String, desc: String, replay: Value) {
        self.rep.lock().unwrap().violation(key, desc, replay);
    }
}

async fn catch<F: Future>(f: F) -> Result<F::Output, String> {
    use std::pin::pin;
    use std::task::Poll;
    let mut f = pin!(f);
    std::future::poll_fn(move |cx| match std::panic::catch_unwind(AssertUnwindSafe(|| f.as_mut().poll(cx))) {
        Ok(Poll::Ready(v)) => Poll::Ready(Ok(v)),
        Ok(Poll::Pending) => Poll::Pending,
        Err(e) => Poll::Ready(Err(panic_text(&*e))),
    })
    .await
}

fn panic_text(e: &(dyn std::any::Any + Send)) -> String {
    if let Some(s) = e.downcast_ref::<String>() {
        s.clone()
    } else if let Some(s) = e.downcast_ref::<&str>() {
        (*s).to_string()
    } else {
        "panic".into()
    }
}

async fn run_matrix_case(pki: &Pki, c: &MatrixCase) -> Obs {
    let r = catch(async {
        let id = pki.server(&c.server_cert, &c.san);
        let ca = c.server_client_ca.then_some(pki.ca_client.path.as_str());
        let cfg = match build_server_config(&c.ctor, id, ca).await {
            Ok((_, cfg)) => cfg,
            Err(e) => {
                return Obs { server_config_err: Some(e), ..Obs::default() };
            }
        };
        subject_handshake(cfg, &c.req_name, pki.client(&c.client_cert), pki.roots_path(&c.roots), c.skip).await.0
    })
    .await;
    match r {
        Ok(o) => o,
        Err(p) => Obs { panicked: Some(p), ..Obs::default() },
    }
}

/// Compare one matrix observation with the truth table. Returns whether success was expected.
fn judge_matrix(pki: &Pki, c: &MatrixCase, o: &Obs, sink: &Sink<'_>) -> bool {
    let srv_defect = if c.skip { None } else { server_cert_defect(&c.server_cert, &c.san, &c.req_name, &c.roots) };
    let cli_defect = client_cert_defect(&c.client_cert, c.server_client_ca);
    let expect_success = srv_defect.is_none() && cli_defect.is_none();
    let replay = c.to_json();
    let ctx = format!(
        "server cert {}/{} (via {}), client asks for {:?} with roots={} skip_verify={} client cert={}, server client-CA {}",
        c.server_cert,
        c.san,
        c.ctor,
        c.req_name,
        c.roots,
        c.skip,
        c.client_cert,
        if c.server_client_ca { "set" } else { "none" }
    );
    if let Some(p) = &o.panicked {
        sink.viol("matrix.panic".into(), format!("panic during handshake ({ctx}): {p}"), replay);
        return expect_success;
    }
    if o.timed_out {
        sink.viol("matrix.hang".into(), format!("handshake did not finish within 30 s ({ctx})"), replay);
        return expect_success;
    }
    if let Some(e) = &o.server_config_err {
        sink.viol(format!("server.config-rejected.{}", c.ctor), format!("{} fails on a well-formed certificate/key/CA: {e} ({ctx})", c.ctor), replay);
        return expect_success;
    }
    // --- the client's decision about the server
    if let Some(why) = srv_defect {
        if o.client_connect_ok {
            sink.viol(
                format!("client.accepts-server.{why}.skip-verify-off"),
                format!("tls_connect succeeded although verification is on and the server certificate is unacceptable ({why}); {ctx}"),
                replay.clone(),
            );
        }
    } else if !o.client_connect_ok {
        let class = if c.skip { format!("skip-verify-on.{}", server_cert_defect(&c.server_cert, &c.san, &c.req_name, &c.roots).unwrap_or("valid-cert")) } else { "valid-cert".to_string() };
        sink.viol(
            format!("client.rejects-server.{class}"),
            format!("tls_connect failed ({}) although the server certificate must be accepted; {ctx}", o.client_err),
            replay.clone(),
        );
    }
    // --- the server's decision about the client (observable only when the client went on)
    if srv_defect.is_none() && o.client_connect_ok {
        match cli_defect {
            Some(why) => {
                if o.server_accept_ok || o.echo_ok {
                    sink.viol(
                        format!("server.accepts-client.{why}"),
                        format!("server with a client CA completed the handshake (accept ok={}, echo ok={}) with a client that has {why}; {ctx}", o.server_accept_ok, o.echo_ok),
                        replay.clone(),
                    );
                }
            }
            None => {
                if !o.server_accept_ok || !o.echo_ok {
                    sink.viol(
                        format!("server.rejects-client.{}.client-ca-{}", c.client_cert, if c.server_client_ca { "set" } else { "none" }),
                        format!("handshake/echo failed (server: {:?}, echo ok={}) although the client must be admitted; {ctx}", o.server_err, o.echo_ok),
                        replay.clone(),
                    );
                }
            }
        }
    }
    // --- what the server learnt about the peer
    if o.server_accept_ok {
        if !c.server_client_ca && o.server_peer_certs.is_some() {
            sink.viol(
                "server.peer-certs-without-client-ca".into(),
                format!("server without a client CA obtained a client certificate; {ctx}"),
                replay.clone(),
            );
        }
        if c.server_client_ca && cli_defect.is_none() {
            let want = pki.client(&c.client_cert).map(|i| vec![i.cert_der.clone()]);
            if o.server_peer_certs != want {
                sink.viol(
                    "server.peer-certs-differ".into(),
                    format!("server's peer_certificates() is not the chain the client was configured with; {ctx}"),
                    replay.clone(),
                );
            }
        }
    }
    // --- the client saw the certificate the server was configured with
    if o.client_connect_ok {
        let want = &pki.server(&c.server_cert, &c.san).cert_der;
        if o.client_saw_cert.as_ref() != Some(want) {
            sink.viol("client.sees-other-certificate".into(), format!("client's view of the server certificate differs from the configured one; {ctx}"), replay);
        }
    }
    expect_success
}

// ---------------------------------------------------------------------------------------
// Probe pass
// ---------------------------------------------------------------------------------------

#[derive(Clone, Debug, PartialEq, Eq, Hash)]
struct ProbeCase {
    alg: String,
    server_cert: String,
    ctor: String,
    server_client_ca: bool,
    tls13: bool,
    client_cert: String,
}

impl ProbeCase {
    fn to_json(&self) -> Value {
        json!({"kind": "probe", "alg": self.alg, "server_cert": self.server_cert, "ctor": self.ctor,
               "server_client_ca": self.server_client_ca, "tls13": self.tls13, "client_cert": self.client_cert})
    }
    fn from_json(v: &Value) -> Self {
        let s = |k: &str| v[k].as_str().unwrap_or_else(|| panic!("replay: missing {k}")).to_string();
        Self {
            alg: s("alg"),
            server_cert: s("server_cert"),
            ctor: s("ctor"),
            server_client_ca: v["server_client_ca"].as_bool().expect("server_client_ca"),
            tls13: v["tls13"].as_bool().expect("tls13"),
            client_cert: s("client_cert"),
        }
    }
}

async fn run_probe_case(pki: &Pki, c: &ProbeCase) -> Obs {
    let r = catch(async {
        let id = pki.server(&c.server_cert, "localhost");
        let ca = c.server_client_ca.then_some(pki.ca_client.path.as_str());
        let cfg = match build_server_config(&c.ctor, id, ca).await {
            Ok((_, cfg)) => cfg,
            Err(e) => return Obs { server_config_err: Some(e), ..Obs::default() },
        };
        probe_handshake(cfg, c.tls13, pki.client(&c.client_cert)).await
    })
    .await;
    match r {
        Ok(o) => o,
        Err(p) => Obs { panicked: Some(p), ..Obs::default() },
    }
}

fn judge_probe(pki: &Pki, c: &ProbeCase, o: &Obs, sink: &Sink<'_>) -> bool {
    let cli_defect = client_cert_defect(&c.client_cert, c.server_client_ca);
    let replay = c.to_json();
    let ver = if c.tls13 { "tls13" } else { "tls12" };
    let ctx = format!(
        "harness client ({ver}, client cert={}) against server cert {} via {}, client-CA {}",
        c.client_cert,
        c.server_cert,
        c.ctor,
        if c.server_client_ca { "set" } else { "none" }
    );
    if let Some(p) = &o.panicked {
        sink.viol("probe.panic".into(), format!("panic ({ctx}): {p}"), replay);
        return cli_defect.is_none();
    }
    if o.timed_out {
        sink.viol("probe.hang".into(), format!("no result within 30 s ({ctx})"), replay);
        return cli_defect.is_none();
    }
    if let Some(e) = &o.server_config_err {
        sink.viol(format!("server.config-rejected.{}", c.ctor), format!("{e} ({ctx})"), replay);
        return cli_defect.is_none();
    }
    match (c.server_client_ca, o.asked_for_cert) {
        (false, Some(true)) => sink.viol(format!("probe.server-asks-for-cert-without-client-ca.{ver}"), format!("a CertificateRequest was sent although no client CA is configured; {ctx}"), replay.clone()),
        (true, Some(false)) => sink.viol(format!("probe.server-never-asks-with-client-ca.{ver}"), format!("no CertificateRequest although a client CA is configured; {ctx}"), replay.clone()),
        _ => {}
    }
    match cli_defect {
        Some(why) => {
            if o.server_accept_ok || o.echo_ok {
                sink.viol(format!("server.accepts-client.{why}"), format!("handshake completed (accept ok={}, echo ok={}); {ctx}", o.server_accept_ok, o.echo_ok), replay.clone());
            }
        }
        None => {
            if !o.success() {
                sink.viol(
                    format!("server.rejects-client.{}.client-ca-{}", c.client_cert, if c.server_client_ca { "set" } else { "none" }),
                    format!("handshake/echo failed (client: {:?}, server: {:?}); {ctx}", o.client_err, o.server_err),
                    replay.clone(),
                );
            }
        }
    }
    if o.server_accept_ok {
        if !c.server_client_ca && o.server_peer_certs.is_some() {
            sink.viol("server.peer-certs-without-client-ca".into(), format!("server without a client CA obtained a client certificate; {ctx}"), replay.clone());
        }
        if c.server_client_ca && cli_defect.is_none() && o.server_peer_certs != pki.client(&c.client_cert).map(|i| vec![i.cert_der.clone()]) {
            sink.viol("server.peer-certs-differ".into(), format!("peer_certificates() is not the presented chain; {ctx}"), replay);
        }
    }
    cli_defect.is_none()
}

// ---------------------------------------------------------------------------------------
// Reload histories
// ---------------------------------------------------------------------------------------

const RELOAD_KINDS: [&str; 4] = ["trusted-ca", "trusted-ca-2", "other-ca", "self-signed"];
const RELOAD_HOW: [&str; 3] = ["same-paths-overwritten", "other-paths", "from-pem"];

#[derive(Clone, Debug, PartialEq, Eq, Hash)]
struct ReloadCase {
    alg: String,
    a: String,
    b: String,
    ca_a: bool,
    ca_b: bool,
    how: String,
}

impl ReloadCase {
    fn to_json(&self) -> Value {
        json!({"kind": "reload", "alg": self.alg, "identity_a": self.a, "identity_b": self.b, "client_ca_a": self.ca_a, "client_ca_b": self.ca_b, "how": self.how,
               "ops": ["make_tls_identity(A)", "handshake#1 (skip-verify, client cert under client CA); keep", "probes vs A", "reload to B", "probes vs B", "echo on #1"]})
    }
    fn from_json(v: &Value) -> Self {
        let s = |k: &str| v[k].as_str().unwrap_or_else(|| panic!("replay: missing {k}")).to_string();
        Self { alg: s("alg"), a: s("identity_a"), b: s("identity_b"), ca_a: v["client_ca_a"].as_bool().expect("client_ca_a"), ca_b: v["client_ca_b"].as_bool().expect("client_ca_b"), how: s("how") }
    }
}

/// Observations of one reload history, as (label, value) facts in a fixed order.
type Facts = Vec<(String, Value)>;

/// The three probes used before and after the reload; returns facts and raises violations.
async fn identity_probes(pki: &Pki, ident: &tls::TlsIdentity, which: &str, kind: &str, ca: bool, c: &ReloadCase, sink: &Sink<'_>, facts: &mut Facts, counters: &Counters) {
    let good_client = pki.client("client-ca");
    let want_der = &pki.server(kind, "localhost").cert_der;
    let replay = c.to_json();
    let stage = if which == "A" { "before-reload" } else { "after-reload" };
    // 1: skip-verify client with an admissible client certificate: must succeed and see `kind`
    let (o, _) = subject_handshake(ident.load_full(), "localhost", good_client, None, true).await;
    counters.evals.fetch_add(1, Ordering::Relaxed);
    facts.push((format!("{stage}.skip.success"), json!(o.success())));
    let sees = if o.client_saw_cert.as_ref() == Some(want_der) {
        which.to_string()
    } else if o.client_saw_cert.as_ref() == Some(&pki.server(&c.a, "localhost").cert_der) {
        "A".into()
    } else if o.client_saw_cert.as_ref() == Some(&pki.server(&c.b, "localhost").cert_der) {
        "B".into()
    } else {
        "neither".into()
    };
    facts.push((format!("{stage}.skip.sees"), json!(sees)));
    if !o.client_connect_ok {
        // same key as in the matrix: it is the client that refuses although told to skip verification
        let class = server_cert_defect(kind, "localhost", "localhost", "system").unwrap_or("valid-cert");
        sink.viol(format!("client.rejects-server.skip-verify-on.{class}"), format!("skip-verify client cannot connect {stage} (client: {:?}); {c:?}", o.client_err), replay.clone());
    } else if !o.success() {
        sink.viol(format!("reload.{stage}.handshake-fails"), format!("skip-verify client with a valid client certificate cannot connect {stage} (client: {:?}, server: {:?}); {c:?}", o.client_err, o.server_err), replay.clone());
    } else if sees != which {
        sink.viol(format!("reload.{stage}.sees-identity-{sees}"), format!("a handshake {stage} presents identity {sees}, expected {which} ({kind}); {c:?}"), replay.clone());
    }
    // 2: verifying client (roots = trusted CA): succeeds iff `kind` is issued by the trusted CA
    let (o, _) = subject_handshake(ident.load_full(), "localhost", good_client, Some(&pki.ca_trusted.path), false).await;
    counters.evals.fetch_add(1, Ordering::Relaxed);
    let want = server_cert_defect(kind, "localhost", "localhost", "trusted-ca").is_none();
    facts.push((format!("{stage}.verify.success"), json!(o.success())));
    if o.success() != want {
        sink.viol(
            format!("reload.{stage}.verifying-client-{}", if want { "rejected" } else { "admitted" }),
            format!("{stage} the identity is {kind}; a client verifying against the trusted CA got success={} (client: {:?}); {c:?}", o.success(), o.client_err),
            replay.clone(),
        );
    }
    // 3: client without certificate: succeeds iff no client CA is in force
    let (o, _) = subject_handshake(ident.load_full(), "localhost", None, None, true).await;
    counters.evals.fetch_add(1, Ordering::Relaxed);
    facts.push((format!("{stage}.nocert.success"), json!(o.success())));
    if !o.client_connect_ok {
        let class = server_cert_defect(kind, "localhost", "localhost", "system").unwrap_or("valid-cert");
        sink.viol(format!("client.rejects-server.skip-verify-on.{class}"), format!("skip-verify client without certificate cannot connect {stage} (client: {:?}); {c:?}", o.client_err), replay);
    } else if o.success() == ca {
        sink.viol(
            format!("reload.{stage}.certless-client-{}", if ca { "admitted" } else { "rejected" }),
            format!("{stage} the client CA is {}; a client without certificate got success={} (server: {:?}); {c:?}", if ca { "set" } else { "none" }, o.success(), o.server_err),
            replay,
        );
    }
}

struct Counters {
    evals: AtomicU64,
}

async fn run_reload_case(pki: &Pki, c: &ReloadCase, sink: &Sink<'_>, counters: &Counters) -> Result<Facts, String> {
    catch(async {
        let mut facts: Facts = Vec::new();
        let replay = c.to_json();
        let ida = pki.server(&c.a, "localhost");
        let idb = pki.server(&c.b, "localhost");
        let ca_path = pki.ca_client.path.clone();
        // The live files the server is "started" with (per-case copies so that overwriting is safe).
        let tag = format!("{}/live-{}-{}-{}{}-{}", pki.dir_path, c.a, c.b, u8::from(c.ca_a), u8::from(c.ca_b), c.how);
        let live_cert = format!("{tag}.cert.pem");
        let live_key = format!("{tag}.key.pem");
        write(&live_cert, &ida.cert_pem);
        write(&live_key, &ida.key_pem);
        let ident = match tls::make_tls_identity(&live_cert, &live_key, c.ca_a.then_some(ca_path.as_str())).await {
            Ok(i) => i,
            Err(e) => {
                sink.viol("server.config-rejected.make_tls_identity".into(), format!("{e}; {c:?}"), replay.clone());
                return facts;
            }
        };
        // handshake #1, kept open
        let (o1, streams) = subject_handshake(ident.load_full(), "localhost", pki.client("client-ca"), None, true).await;
        counters.evals.fetch_add(1, Ordering::Relaxed);
        facts.push(("conn1.established".into(), json!(o1.success())));
        let Some((mut c1, mut s1)) = streams.filter(|_| o1.success()) else {
            let key = if o1.client_connect_ok { "reload.before-reload.handshake-fails".to_string() } else { format!("client.rejects-server.skip-verify-on.{}", server_cert_defect(&c.a, "localhost", "localhost", "system").unwrap_or("valid-cert")) };
            sink.viol(key, format!("first connection cannot be established (client: {:?}, server: {:?}); {c:?}", o1.client_err, o1.server_err), replay.clone());
            return facts;
        };
        identity_probes(pki, &ident, "A", &c.a, c.ca_a, c, sink, &mut facts, counters).await;
        // the reload
        let new_ca = c.ca_b.then_some(ca_path.as_str());
        let r = match c.how.as_str() {
            "same-paths-overwritten" => {
                write(&live_cert, &idb.cert_pem);
                write(&live_key, &idb.key_pem);
                tls::reload_tls_identity(&ident, &live_cert, &live_key, new_ca).await
            }
            "other-paths" => tls::reload_tls_identity(&ident, &idb.cert_path, &idb.key_path, new_ca).await,
            "from-pem" => tls::reload_tls_identity_from_pem(&ident, idb.cert_pem.clone(), idb.key_pem.clone(), new_ca).await,
            other => panic!("unknown reload method {other}"),
        };
        counters.evals.fetch_add(1, Ordering::Relaxed);
        facts.push(("reload.ok".into(), json!(r.is_ok())));
        if let Err(e) = r {
            sink.viol(format!("reload.fails.{}", c.how), format!("reloading to a well-formed identity fails: {e}; {c:?}"), replay.clone());
            return facts;
        }
        identity_probes(pki, &ident, "B", &c.b, c.ca_b, c, sink, &mut facts, counters).await;
        // connection #1 must be undisturbed: both directions still carry data, same peer data
        let alive = tokio::time::timeout(Duration::from_secs(30), async {
            let mut b = [0u8; 1];
            let c2s = c1.write_all(b"c").await.is_ok() && c1.flush().await.is_ok() && s1.read_exact(&mut b).await.is_ok() && b[0] == b'c';
            let s2c = s1.write_all(b"s").await.is_ok() && s1.flush().await.is_ok() && c1.read_exact(&mut b).await.is_ok() && b[0] == b's';
            (c2s, s2c)
        })
        .await
        .unwrap_or((false, false));
        counters.evals.fetch_add(1, Ordering::Relaxed);
        facts.push(("conn1.alive-after-reload".into(), json!([alive.0, alive.1])));
        if alive != (true, true) {
            sink.viol("reload.established-connection-disturbed".into(), format!("the connection made before the reload no longer echoes (c->s {}, s->c {}); {c:?}", alive.0, alive.1), replay.clone());
        }
        let still = c1.get_ref().1.peer_certificates().and_then(|x| x.first().map(|d| d.to_vec()));
        if still.as_ref() != Some(&ida.cert_der) {
            sink.viol("reload.established-connection-identity-changed".into(), format!("the first connection's peer certificate changed; {c:?}"), replay);
        }
        facts
    })
    .await
}

// ---------------------------------------------------------------------------------------
// A client CA is configured but its file yields no usable certificate (empty during rotation, key only, not PEM):
// the server may refuse to start / refuse the reload, but it must never end up admitting clients it cannot authenticate.
// ---------------------------------------------------------------------------------------

const BAD_CA_KINDS: [&str; 4] = ["empty", "key-only", "not-pem", "truncated-pem"];
const BAD_CA_VIA: [&str; 4] = ["start", "reload.same-paths-overwritten", "reload.other-paths", "reload.from-pem"];

#[derive(Clone, Debug, PartialEq, Eq, Hash)]
struct BadCaCase {
    alg: String,
    ctor: String,
    kind: String,
    via: String,
}

impl BadCaCase {
    fn to_json(&self) -> Value {
        json!({"kind": "bad-client-ca", "alg": self.alg, "ctor": self.ctor, "ca_file": self.kind, "via": self.via})
    }
    fn from_json(v: &Value) -> Self {
        let s = |k: &str| v[k].as_str().unwrap_or_else(|| panic!("replay: missing {k}")).to_string();
        Self { alg: s("alg"), ctor: s("ctor"), kind: s("ca_file"), via: s("via") }
    }
}

fn bad_ca_domain(algs: &[&str]) -> Vec<BadCaCase> {
    let mut v = Vec::new();
    for alg in algs {
        for kind in BAD_CA_KINDS {
            for via in BAD_CA_VIA {
                for ctor in CTORS {
                    if via != "start" && ctor != "make_tls_identity" {
                        continue; // a reload needs a TlsIdentity; the reload method is the variable there
                    }
                    v.push(BadCaCase { alg: (*alg).into(), ctor: ctor.into(), kind: kind.into(), via: via.into() });
                }
            }
        }
    }
    v
}

/// What a CA file "without certificates" holds. `key_pem` is some private key of the run, `ca` the CA the file would have
/// held had it been written properly.
fn unusable_bundle(kind: &str, key_pem: &str, ca: &Ca) -> Vec<u8> {
    match kind {
        "empty" => Vec::new(),
        "key-only" => key_pem.as_bytes().to_vec(),
        "not-pem" => b"this is not a certificate\n".to_vec(),
        // the right certificate in the wrong encoding: no PEM block in it
        "der" => ca.cert_der.clone(),
        "truncated-pem" => b"-----BEGIN CERTIFICATE-----\nMIIB".to_vec(),
        other => panic!("unknown bad CA kind {other}"),
    }
}

/// Brings a server configuration to life whose client-CA file is the unusable one at `bad`: at start-up through `ctor`,
/// or by reloading (method `via`) a server that was started with the proper client CA. `None`: start-up was refused
/// (fine, fact `start.refused`) or the set-up itself failed (violation raised). After a refused reload the previous
/// configuration is the live one and is returned.
#[allow(clippy::too_many_arguments)]
async fn bad_ca_live_config(pki: &Pki, bad: &str, via: &str, ctor: &str, ctx: &str, replay: &Value, sink: &Sink<'_>, facts: &mut Facts, counters: &Counters) -> Option<Arc<ServerConfig>> {
    let id = pki.server("trusted-ca", "localhost");
    if via == "start" {
        return match build_server_config(ctor, id, Some(bad)).await {
            Err(_) => {
                facts.push(("start.refused".into(), json!(true)));
                counters.evals.fetch_add(1, Ordering::Relaxed);
                None // refusing to start is fine
            }
            Ok((_, cfg)) => Some(cfg),
        };
    }
    let idb = pki.server("trusted-ca-2", "localhost");
    let live_cert = format!("{bad}.live.cert.pem");
    let live_key = format!("{bad}.live.key.pem");
    write(&live_cert, &id.cert_pem);
    write(&live_key, &id.key_pem);
    let ident = match tls::make_tls_identity(&live_cert, &live_key, Some(pki.ca_client.path.as_str())).await {
        Ok(i) => i,
        Err(e) => {
            sink.viol("server.config-rejected.make_tls_identity".into(), format!("{e}; {ctx}"), replay.clone());
            return None;
        }
    };
    let r = match via {
        "reload.same-paths-overwritten" => {
            write(&live_cert, &idb.cert_pem);
            write(&live_key, &idb.key_pem);
            tls::reload_tls_identity(&ident, &live_cert, &live_key, Some(bad)).await
        }
        "reload.other-paths" => tls::reload_tls_identity(&ident, &idb.cert_path, &idb.key_path, Some(bad)).await,
        "reload.from-pem" => tls::reload_tls_identity_from_pem(&ident, idb.cert_pem.clone(), idb.key_pem.clone(), Some(bad)).await,
        other => panic!("unknown via {other}"),
    };
    facts.push(("reload.ok".into(), json!(r.is_ok())));
    let cfg = ident.load_full();
    if r.is_err() {
        // the old configuration stays: a client under the (old, valid) client CA is still admitted
        let o = probe_handshake(cfg.clone(), true, pki.client("client-ca")).await;
        counters.evals.fetch_add(1, Ordering::Relaxed);
        facts.push(("after-refused-reload.client-ca.accepted".into(), json!(o.success())));
        if !o.success() {
            sink.viol("badca.refused-reload-disturbed-old-config".into(), format!("the reload was refused but a client holding a certificate under the still-configured client CA is no longer admitted (client: {:?}, server: {:?}); {ctx}", o.client_err, o.server_err), replay.clone());
        }
    }
    Some(cfg)
}

/// Returns the facts observed (for determinism comparison in replay).
async fn run_bad_ca_case(pki: &Pki, c: &BadCaCase, sink: &Sink<'_>, counters: &Counters) -> Result<Facts, String> {
    catch(async {
        let mut facts: Facts = Vec::new();
        let replay = c.to_json();
        let bad = format!("{}/badca-{}-{}-{}.pem", pki.dir_path, c.kind, c.via, c.ctor);
        write(&bad, unusable_bundle(&c.kind, &pki.server("trusted-ca", "localhost").key_pem, &pki.ca_client));
        let Some(cfg) = bad_ca_live_config(pki, &bad, &c.via, &c.ctor, &format!("{c:?}"), &replay, sink, &mut facts, counters).await else {
            return facts;
        };
        // whatever configuration is live now was built with a client CA configured: clients that present nothing, or a
        // certificate from elsewhere, must not get through
        for client in ["none", "other-ca", "self-signed"] {
            for tls13 in [true, false] {
                let o = probe_handshake(cfg.clone(), tls13, pki.client(client)).await;
                counters.evals.fetch_add(1, Ordering::Relaxed);
                facts.push((format!("probe.{client}.{}", if tls13 { "tls13" } else { "tls12" }), json!(o.server_accept_ok || o.echo_ok)));
                if o.server_accept_ok || o.echo_ok {
                    sink.viol(
                        format!("server.accepts-client.unusable-client-ca.{}", if c.via == "start" { "start" } else { "reload" }),
                        format!("a client CA is configured ({} file, via {} / {}) yet a client with certificate '{client}' completed the handshake (accept ok={}, echo ok={})", c.kind, c.via, c.ctor, o.server_accept_ok, o.echo_ok),
                        replay.clone(),
                    );
                }
            }
        }
        facts
    })
    .await
}

// ---------------------------------------------------------------------------------------
// The OS trust store as a dimension ("os-trust-store" pass)
//
// The process's OS trust store holds exactly one CA per key algorithm, os-ca (`OsStore`). It must be consulted iff
// NO CA file is configured. A configured file that yields no certificate {empty, private key only, DER instead of
// PEM, truncated PEM} means "trust nobody" (or an error), never "trust the OS store":
//  * client side: `--tls-ca <such a file>` without skip-verify must not reach ANY server, in particular not one whose
//    certificate was issued by os-ca;
//  * server side: `--tls-client-ca <such a file>`: start-up / reload fails, or every client is rejected, in particular
//    one whose certificate was issued by os-ca.
// Also: a usable file of ANOTHER CA does not let os-ca in (client and server side).
// Controls (not the subject of the property, they make the silence of the cases above meaningful):
//  * `system`: no CA file, server certificate under os-ca: must be ACCEPTED - this proves that SSL_CERT_FILE really
//    feeds the subject's built-in roots in this process. If it does not hold the pass is vacuous: MACHINERY error.
//  * `os-ca-file`: os-ca given as a file (client roots / server client CA): the os-ca leaf certificates are accepted,
//    i.e. they are refused elsewhere because of who issued them, not because they are unusable.
// ---------------------------------------------------------------------------------------

/// bundle kinds of this pass (the DER encoding of the very CA that would be right is the strongest temptation)
const OS_BUNDLE_KINDS: [&str; 4] = ["empty", "key-only", "der", "truncated-pem"];

#[derive(Clone, Debug, PartialEq, Eq, Hash)]
struct OsTrustCase {
    alg: String,
    /// "client" (the client's decision about the server is judged) | "server" (the server's decision about the client)
    side: String,
    /// what the CA path points at: one of `OS_BUNDLE_KINDS`; a usable file "trusted-ca" / "other-ca" / "client-ca" / "os-ca";
    /// or "system" = no CA path at all (client side only)
    ca_file: String,
    /// client side: entry point (`CLIENT_VIA`); server side: how the configuration comes into force (`BAD_CA_VIA`)
    via: String,
    /// server side: the constructor (start) / "make_tls_identity" (reload); client side: how the plain server is built
    ctor: String,
    /// client side: who issued the server's certificate {os-ca, trusted-ca}; server side: always "trusted-ca"
    server_cert: String,
    /// the client's certificate; server side: always "os-ca"
    client_cert: String,
    /// client side: the client is told to skip verification (then ANY certificate must be accepted, whatever roots -
    /// none at all included - the client has); absent in recorded cases of earlier versions = false
    skip: bool,
    /// what SSL_CERT_FILE holds while the case runs: `OS_STORE_DEFAULT` = the bundle with os-ca (the whole parent process), or
    /// one of `OS_EMPTY_STORE_KINDS` = an OS trust store without any certificate (client side, no CA file; such a case
    /// is only ever executed by the child process of `os_empty_child`, which owns its environment)
    os_store: String,
}

/// the value of `OsTrustCase::os_store` in the driver's own process
const OS_STORE_DEFAULT: &str = "os-ca";
/// an OS trust store that yields no certificate: what `unusable_bundle` makes, or no file at all at the path
const OS_EMPTY_STORE_KINDS: [&str; 5] = ["empty", "key-only", "der", "truncated-pem", "missing"];
/// CA files without certificates of the skip-verify-ON cases: those the unchanged subject reads as "no certificate in
/// here". A PEM section that is cut off ("truncated-pem") is a file the subject refuses to read at all (error "section end
/// missing" when the client configuration is built, with skip-verify on or off): a refused configuration, not a rejected
/// certificate, so it is not in this list (as an OS trust store such a file only produces a warning and IS in
/// `OS_EMPTY_STORE_KINDS`).
const OS_SKIP_BUNDLE_KINDS: [&str; 3] = ["empty", "key-only", "der"];
/// server certificates of the skip-verify cases of this pass: "any certificate"
const OS_SKIP_SERVER_CERTS: [&str; 4] = ["os-ca", "trusted-ca", "self-signed", "other-ca"];

impl OsTrustCase {
    fn to_json(&self) -> Value {
        json!({"kind": "os-trust-store", "alg": self.alg, "side": self.side, "ca_file": self.ca_file, "via": self.via, "ctor": self.ctor,
               "server_cert": self.server_cert, "client_cert": self.client_cert, "skip_verify": self.skip, "os_store_content": self.os_store,
               "os_trust_store": if self.empty_os_store() { "SSL_CERT_FILE = a path that yields no certificate (os_store_content); SSL_CERT_DIR unset; executed by a child process of the driver" } else { "SSL_CERT_FILE = a bundle holding os-ca only; SSL_CERT_DIR unset" }})
    }
    fn from_json(v: &Value) -> Self {
        let s = |k: &str| v[k].as_str().unwrap_or_else(|| panic!("replay: missing {k}")).to_string();
        let os_store = v["os_store_content"].as_str().unwrap_or(OS_STORE_DEFAULT).to_string();
        assert!(os_store == OS_STORE_DEFAULT || OS_EMPTY_STORE_KINDS.contains(&os_store.as_str()), "replay: unknown os_store_content {os_store}");
        Self { alg: s("alg"), side: s("side"), ca_file: s("ca_file"), via: s("via"), ctor: s("ctor"), server_cert: s("server_cert"), client_cert: s("client_cert"), skip: v["skip_verify"].as_bool().unwrap_or(false), os_store }
    }
    fn unusable(&self) -> bool {
        OS_BUNDLE_KINDS.contains(&self.ca_file.as_str())
    }
    fn empty_os_store(&self) -> bool {
        self.os_store != OS_STORE_DEFAULT
    }
    /// the client has no root at all: its CA file holds no certificate, or it has none and the OS trust store is empty
    fn no_roots(&self) -> bool {
        self.side == "client" && (self.unusable() || (self.ca_file == "system" && self.empty_os_store()))
    }
    /// the control that shows that SSL_CERT_FILE feeds the subject's built-in roots
    fn is_system_control(&self) -> bool {
        self.side == "client" && self.ca_file == "system" && self.server_cert == "os-ca" && !self.skip && !self.empty_os_store()
    }
}

fn os_trust_domain(algs: &[&str]) -> Vec<OsTrustCase> {
    let mut v = Vec::new();
    for alg in algs {
        let mut client = |ca_file: &str, server_cert: &str, client_cert: &str| {
            for via in CLIENT_VIA {
                v.push(OsTrustCase { alg: (*alg).into(), side: "client".into(), ca_file: ca_file.into(), via: via.into(), ctor: "make_server_config".into(), server_cert: server_cert.into(), client_cert: client_cert.into(), skip: false, os_store: OS_STORE_DEFAULT.into() });
            }
        };
        // controls first: system roots accept os-ca (and nothing else); os-ca as a file accepts os-ca
        for client_cert in ["none", "client-ca"] {
            client("system", "os-ca", client_cert);
        }
        client("system", "trusted-ca", "none");
        client("os-ca", "os-ca", "none");
        // a CA file without certificates
        for kind in OS_BUNDLE_KINDS {
            for server_cert in ["os-ca", "trusted-ca"] {
                for client_cert in ["none", "client-ca"] {
                    client(kind, server_cert, client_cert);
                }
            }
        }
        // a usable file of another CA
        for roots in ["trusted-ca", "other-ca"] {
            client(roots, "os-ca", "none");
        }
        // skip-verify ON over a CA file without certificates (= an EMPTY root store): any certificate is accepted; both
        // skip-verify arms of the client configuration (with / without a client certificate), both entry points
        for kind in OS_SKIP_BUNDLE_KINDS {
            for server_cert in OS_SKIP_SERVER_CERTS {
                for client_cert in ["none", "client-ca"] {
                    for via in CLIENT_VIA {
                        v.push(OsTrustCase { alg: (*alg).into(), side: "client".into(), ca_file: kind.into(), via: via.into(), ctor: "make_server_config".into(), server_cert: server_cert.into(), client_cert: client_cert.into(), skip: true, os_store: OS_STORE_DEFAULT.into() });
                    }
                }
            }
        }
        // server side
        let mut server = |ca_file: &str, via: &str, ctor: &str| v.push(OsTrustCase { alg: (*alg).into(), side: "server".into(), ca_file: ca_file.into(), via: via.into(), ctor: ctor.into(), server_cert: "trusted-ca".into(), client_cert: "os-ca".into(), skip: false, os_store: OS_STORE_DEFAULT.into() });
        for ctor in CTORS {
            server("os-ca", "start", ctor); // control: the os-ca client certificate is admitted under os-ca
        }
        for kind in OS_BUNDLE_KINDS {
            for via in BAD_CA_VIA {
                for ctor in CTORS {
                    if via != "start" && ctor != "make_tls_identity" {
                        continue; // as in `bad_ca_domain`
                    }
                    server(kind, via, ctor);
                }
            }
        }
        for ctor in CTORS {
            server("client-ca", "start", ctor);
        }
    }
    v
}

/// The cases with NO CA file and an OS trust store that yields no certificate (SSL_CERT_FILE is process-wide: they are
/// executed one after the other by a child process of the driver, see `os_empty_child`): every kind of such a store x
/// server certificate {os-ca, trusted CA, self-signed, other CA} x client certificate {none, client-ca} x entry point x
/// skip-verify {on: must connect, off: must not}.
fn os_empty_domain(algs: &[&str]) -> Vec<OsTrustCase> {
    let mut v = Vec::new();
    for alg in algs {
        for kind in OS_EMPTY_STORE_KINDS {
            for server_cert in OS_SKIP_SERVER_CERTS {
                for client_cert in ["none", "client-ca"] {
                    for via in CLIENT_VIA {
                        for skip in [true, false] {
                            v.push(OsTrustCase { alg: (*alg).into(), side: "client".into(), ca_file: "system".into(), via: via.into(), ctor: "make_server_config".into(), server_cert: server_cert.into(), client_cert: client_cert.into(), skip, os_store: kind.into() });
                        }
                    }
                }
            }
        }
    }
    v
}

#[derive(Default)]
struct OsStats {
    /// skip-verify ON over an empty root store: handshakes made / succeeded (vacuity guard)
    skip_on_run: AtomicU64,
    skip_on_ok: AtomicU64,
    cases: AtomicU64,
    controls_run: AtomicU64,
    control_ok: AtomicU64,
    control_failures: Mutex<Vec<String>>,
    /// handshakes of this pass that the subject refused / configurations it refused to build, where that was expected
    expected_refusals: AtomicU64,
    observed_refusals: AtomicU64,
    configs_refused: AtomicU64,
}

/// Returns the facts observed (for determinism comparison in replay).
async fn run_os_trust_case(pki: &Pki, c: &OsTrustCase, sink: &Sink<'_>, counters: &Counters, stats: &OsStats) -> Result<Facts, String> {
    let r = catch(async {
        let mut facts: Facts = Vec::new();
        let replay = c.to_json();
        stats.cases.fetch_add(1, Ordering::Relaxed);
        let bundle = format!("{}/osts-{}-{}-{}-{}-{}-{}{}.pem", pki.dir_path, c.side, c.ca_file, c.via, c.ctor, c.server_cert, c.client_cert, if c.skip { "-skip" } else { "" });
        if c.side == "client" {
            // ---- the client's CA path
            let ca_path: Option<String> = if c.unusable() {
                write(&bundle, unusable_bundle(&c.ca_file, &pki.server("trusted-ca", "localhost").key_pem, &pki.ca_trusted));
                Some(bundle)
            } else {
                pki.roots_path(&c.ca_file).map(str::to_string)
            };
            // ---- a server that admits everybody, holding the certificate under test
            let cfg = match build_server_config(&c.ctor, pki.server(&c.server_cert, "localhost"), None).await {
                Ok((_, cfg)) => cfg,
                Err(e) => {
                    sink.viol(format!("server.config-rejected.{}", c.ctor), format!("{} fails on a well-formed certificate/key: {e}; {c:?}", c.ctor), replay);
                    return facts;
                }
            };
            let (o, _) = subject_handshake_via(&c.via, cfg, "localhost", pki.client(&c.client_cert), ca_path.as_deref(), c.skip).await;
            counters.evals.fetch_add(1, Ordering::Relaxed);
            facts.push(("client.connect_ok".into(), json!(o.client_connect_ok)));
            facts.push(("success".into(), json!(o.success())));
            facts.push(("timed_out".into(), json!(o.timed_out)));
            let ctx = format!("client via {} with {}, skip-verify {}, client certificate {}; server certificate issued by {} (localhost, name matches); OS trust store = {}", c.via, match ca_path { Some(_) => format!("--tls-ca = <{}>", c.ca_file), None => "no --tls-ca (system roots)".to_string() }, if c.skip { "ON" } else { "off" }, c.client_cert, c.server_cert, if c.empty_os_store() { format!("SSL_CERT_FILE -> <{}> (no certificate in it)", c.os_store) } else { "{os-ca}".to_string() });
            if o.timed_out {
                sink.viol("matrix.hang".into(), format!("handshake did not finish within 30 s ({ctx})"), replay);
                return facts;
            }
            if c.skip {
                // told to skip verification: ANY certificate is accepted, whatever the client's roots are (here: none at all)
                if c.no_roots() {
                    stats.skip_on_run.fetch_add(1, Ordering::Relaxed);
                    stats.skip_on_ok.fetch_add(u64::from(o.success()), Ordering::Relaxed);
                }
                if !o.success() {
                    let (key, roots) = if c.unusable() {
                        (format!("client.rejects-server.skip-verify-on.unusable-ca-bundle.{}", c.ca_file), format!("the CA file it was given holds no certificate ({})", c.ca_file))
                    } else if c.empty_os_store() && c.ca_file == "system" {
                        ("client.rejects-server.skip-verify-on.empty-os-trust-store".to_string(), format!("it was given no CA file and the OS trust store holds no certificate ({})", c.os_store))
                    } else {
                        ("client.rejects-server.skip-verify-on".to_string(), format!("its roots are {}", c.ca_file))
                    };
                    sink.viol(key, format!("the client was told to skip verification, so any certificate is to be accepted whatever its roots are, and {roots}: handshake/echo failed (client connected={}, echo ok={}, client: {:?}, server: {:?}); {ctx}", o.client_connect_ok, o.echo_ok, o.client_err, o.server_err), replay);
                }
                return facts;
            }
            let defect = if c.unusable() {
                Some("unusable-ca-bundle")
            } else if c.no_roots() {
                Some("empty-os-trust-store")
            } else {
                server_cert_defect(&c.server_cert, "localhost", "localhost", &c.ca_file)
            };
            if c.is_system_control() {
                stats.controls_run.fetch_add(1, Ordering::Relaxed);
                if o.success() {
                    stats.control_ok.fetch_add(1, Ordering::Relaxed);
                } else {
                    stats.control_failures.lock().unwrap().push(format!("{ctx}: client error {:?}, server error {:?}", o.client_err, o.server_err));
                }
                return facts; // judged by the driver: MACHINERY when it does not hold
            }
            match defect {
                Some(why) => {
                    stats.expected_refusals.fetch_add(1, Ordering::Relaxed);
                    stats.observed_refusals.fetch_add(u64::from(!o.client_connect_ok), Ordering::Relaxed);
                    if o.client_connect_ok {
                        let key = if c.unusable() { format!("client.accepts-server.unusable-ca-bundle.{}", c.ca_file) } else { format!("client.accepts-server.{why}.skip-verify-off") };
                        let what = if c.no_roots() && !c.unusable() {
                            format!("it was given no CA file and the OS trust store holds no certificate ({}), so it has NO roots, yet it reached the server", c.os_store)
                        } else if c.unusable() {
                            format!("the CA file it was given holds no certificate ({}), so it was given NO roots, yet it reached the server{}", c.ca_file, if c.server_cert == "os-ca" { " (whose certificate chains to a CA of the OS trust store that the client was never given)" } else { "" })
                        } else {
                            format!("the server certificate is unacceptable ({why}): the roots it was given are {} only", if c.ca_file == "system" { "the OS trust store = os-ca" } else { c.ca_file.as_str() })
                        };
                        sink.viol(key, format!("the client connected although verification is on and {what}; {ctx}"), replay);
                    }
                }
                None => {
                    if !o.success() {
                        sink.viol("client.rejects-server.valid-cert".into(), format!("handshake failed (client: {:?}, server: {:?}) although the server certificate chains to the CA the client was given as a file and matches the name; {ctx}", o.client_err, o.server_err), replay);
                    }
                }
            }
            return facts;
        }
        // ---- server side
        assert_eq!(c.side, "server", "unknown side");
        let ctx = format!("server with client-CA file <{}> via {} / {}; client presents a certificate issued by os-ca (the only CA of the OS trust store)", c.ca_file, c.via, c.ctor);
        let cfg = if c.unusable() {
            write(&bundle, unusable_bundle(&c.ca_file, &pki.server("trusted-ca", "localhost").key_pem, &pki.ca_client));
            let live = bad_ca_live_config(pki, &bundle, &c.via, &c.ctor, &format!("{c:?}"), &replay, sink, &mut facts, counters).await;
            stats.configs_refused.fetch_add(u64::from(facts.iter().any(|(k, v)| k == "start.refused" || (k == "reload.ok" && v == &json!(false)))), Ordering::Relaxed);
            match live {
                Some(cfg) => cfg,
                None => return facts,
            }
        } else {
            let ca = match c.ca_file.as_str() {
                "os-ca" => &pki.ca_os,
                "client-ca" => &pki.ca_client,
                other => panic!("unknown client CA {other}"),
            };
            match build_server_config(&c.ctor, pki.server("trusted-ca", "localhost"), Some(&ca.path)).await {
                Ok((_, cfg)) => cfg,
                Err(e) => {
                    sink.viol(format!("server.config-rejected.{}", c.ctor), format!("{} fails on a well-formed certificate/key/CA: {e}; {c:?}", c.ctor), replay);
                    return facts;
                }
            }
        };
        let admitted_expected = c.ca_file == "os-ca";
        for tls13 in [true, false] {
            let ver = if tls13 { "tls13" } else { "tls12" };
            let o = probe_handshake(cfg.clone(), tls13, pki.client(&c.client_cert)).await;
            counters.evals.fetch_add(1, Ordering::Relaxed);
            let through = o.server_accept_ok || o.echo_ok;
            facts.push((format!("probe.os-ca.{ver}"), json!(through)));
            if admitted_expected {
                if !o.success() {
                    sink.viol("server.rejects-client.os-ca.client-ca-os-ca".into(), format!("handshake/echo failed ({ver}; client: {:?}, server: {:?}) although the client's certificate was issued by the configured client CA; {ctx}", o.client_err, o.server_err), replay.clone());
                }
                continue;
            }
            stats.expected_refusals.fetch_add(1, Ordering::Relaxed);
            stats.observed_refusals.fetch_add(u64::from(!through), Ordering::Relaxed);
            if through {
                let (key, what) = if c.unusable() {
                    (format!("server.accepts-client.unusable-client-ca.os-trusted.{}", c.ca_file), format!("the client-CA file holds no certificate ({}), so no client can be authenticated", c.ca_file))
                } else {
                    ("server.accepts-client.client-cert-os-trusted-ca".to_string(), "the client's certificate was not issued by the configured client CA".to_string())
                };
                sink.viol(key, format!("the server completed the handshake ({ver}, accept ok={}, echo ok={}) although {what}; {ctx}", o.server_accept_ok, o.echo_ok), replay.clone());
            }
        }
        facts
    })
    .await;
    if let Err(p) = &r {
        sink.viol("ostrust.panic".into(), format!("panic in os-trust-store case {c:?}: {p}"), c.to_json());
    }
    r
}

// ---------------------------------------------------------------------------------------
// Reload histories through SIGUSR1 on a running `server_main`
//
// The run-time path of the real server: `server::server_main` installs a SIGUSR1 task that re-reads the
// `--tls-cert` / `--tls-key` files. Each step of a history rewrites those files, raises SIGUSR1 and looks at
// the certificate a NEW loopback-TCP TLS connection is shown. Reference: the identity in force is the last
// GOOD one written (a failed reload leaves the previous identity in place and does not stop later reloads
// from taking effect); the connection made before the first reload stays usable throughout.
//
// SIGUSR1 is process-wide, so these histories run strictly one after the other (one job), each in a runtime
// of its own that is dropped at the end (which removes that server's listener and signal task).
// ---------------------------------------------------------------------------------------

const SIG_ALPHABET: [&str; 4] = ["good-B", "good-A", "bad-key", "bad-cert"];
/// how long a new identity may take to show up after SIGUSR1
const SIG_APPLY_DEADLINE: Duration = Duration::from_secs(3);
/// fixed wait before looking when the identity is expected NOT to change
const SIG_SETTLE: Duration = Duration::from_millis(300);
/// how long the server may take to accept its first TLS connection
const SIG_START_DEADLINE: Duration = Duration::from_secs(6);
const SIG_START_ATTEMPTS: usize = 4;

#[derive(Clone, Debug, PartialEq, Eq, Hash)]
struct SigCase {
    alg: String,
    history: Vec<String>,
    client_ca: bool,
}

impl SigCase {
    fn to_json(&self) -> Value {
        json!({"kind": "signal-reload", "alg": self.alg, "history": self.history, "client_ca": self.client_ca,
               "start_identity": "A = trusted-ca/localhost", "identity_b": "B = trusted-ca-2/localhost",
               "step": "rewrite the live --tls-cert/--tls-key files as named (bad-key: key file truncated, bad-cert: certificate file is not PEM), raise SIGUSR1, open a new TLS connection to the running server_main"})
    }
    fn from_json(v: &Value) -> Self {
        let history: Vec<String> = v["history"].as_array().expect("replay: history").iter().map(|s| s.as_str().expect("replay: history entry").to_string()).collect();
        for h in &history {
            assert!(SIG_ALPHABET.contains(&h.as_str()), "replay: unknown history step {h}");
        }
        Self { alg: v["alg"].as_str().expect("replay: alg").to_string(), history, client_ca: v["client_ca"].as_bool().unwrap_or(false) }
    }
}

/// Quick: every history of length 1..=2, and of length 3 those whose first step is a failing one and whose
/// last step is a well-formed one, plus [good-B, bad-key, good-A] (the fixed 300 ms waits are sequential; this
/// keeps the pass at about 20 s). Thorough: every history of length 1..=4 (first algorithm), and every history of
/// length 1..=2 with a client CA configured and for each further key algorithm.
fn sig_domain(algs: &[&str], thorough: bool) -> Vec<SigCase> {
    fn all(len: usize) -> Vec<Vec<String>> {
        let mut v: Vec<Vec<String>> = vec![vec![]];
        for _ in 0..len {
            v = v.into_iter().flat_map(|h| SIG_ALPHABET.iter().map(move |s| h.iter().cloned().chain([(*s).to_string()]).collect::<Vec<String>>())).collect();
        }
        v
    }
    let mut out = Vec::new();
    let first = algs[0];
    let max = if thorough { 4 } else { 3 };
    for len in 1..=max {
        for h in all(len) {
            let keep = thorough || len < 3 || (h[0].starts_with("bad-") && h[2].starts_with("good-")) || h == ["good-B", "bad-key", "good-A"];
            if keep {
                out.push(SigCase { alg: first.into(), history: h, client_ca: false });
            }
        }
    }
    if thorough {
        for len in 1..=2 {
            for h in all(len) {
                out.push(SigCase { alg: first.into(), history: h.clone(), client_ca: true });
                for alg in &algs[1..] {
                    out.push(SigCase { alg: (*alg).into(), history: h.clone(), client_ca: false });
                }
            }
        }
    }
    out
}

/// Make sure tokio's process-wide SIGUSR1 handler is installed (tokio never uninstalls it) before anything
/// in this process raises that signal: its default action would kill the process.
fn install_sigusr1_guard() -> Result<(), String> {
    static DONE: std::sync::OnceLock<Result<(), String>> = std::sync::OnceLock::new();
    DONE.get_or_init(|| {
        let rt = runtime();
        match rt.block_on(async { tokio::signal::unix::signal(tokio::signal::unix::SignalKind::user_defined1()) }) {
            Ok(sig) => {
                // keep one listener registered for ever
                let _: &'static mut tokio::signal::unix::Signal = Box::leak(Box::new(sig));
                Ok(())
            }
            Err(e) => Err(format!("cannot install a SIGUSR1 listener: {e}")),
        }
    })
    .clone()
}

/// The disposition of SIGUSR1 is a handler (neither "terminate" nor "ignore").
fn sigusr1_has_handler() -> bool {
    // SAFETY: querying the current disposition with a null new action has no side effects; `old` is a valid out-pointer.
    unsafe {
        let mut old: libc::sigaction = std::mem::zeroed();
        libc::sigaction(libc::SIGUSR1, std::ptr::null(), &mut old) == 0 && old.sa_sigaction != libc::SIG_DFL && old.sa_sigaction != libc::SIG_IGN
    }
}

fn raise_sigusr1() -> bool {
    // SAFETY: plain libc call; delivered to the calling thread, where tokio's handler only sets a flag and writes to a pipe.
    unsafe { libc::raise(libc::SIGUSR1) == 0 }
}

type TcpTls = tokio_rustls::client::TlsStream<tokio::net::TcpStream>;

/// Harness-owned client for loopback TCP: accepts any server certificate, no session resumption (every
/// connection is a full handshake, so the certificate seen is the one the server presents NOW).
fn sig_client_config(pki: &Pki, with_client_cert: bool) -> Arc<ClientConfig> {
    sig_client_config_for(pki, with_client_cert.then_some("client-ca"))
}

/// As `sig_client_config`, presenting the client certificate of that kind (`Pki::client`), or none.
fn sig_client_config_for(pki: &Pki, client_kind: Option<&str>) -> Arc<ClientConfig> {
    let prov = provider();
    let b = ClientConfig::builder_with_provider(prov.clone()).with_safe_default_protocol_versions().expect("protocol versions").dangerous().with_custom_certificate_verifier(Arc::new(AcceptAnyServerCert(prov)));
    let mut cfg = if let Some(kind) = client_kind {
        let id = pki.client(kind).expect("client identity");
        b.with_client_auth_cert(vec![CertificateDer::from(id.cert_der.clone())], PrivateKeyDer::Pkcs8(PrivatePkcs8KeyDer::from(id.key_der.clone()))).expect("client certificate")
    } else {
        b.with_no_client_auth()
    };
    cfg.resumption = rustls::client::Resumption::disabled();
    Arc::new(cfg)
}

/// One new connection: TCP connect, TLS handshake, the end-entity certificate the server presented.
async fn tcp_observe(port: u16, cfg: &Arc<ClientConfig>) -> Result<(Vec<u8>, TcpTls), String> {
    let fut = async {
        let tcp = tokio::net::TcpStream::connect(("127.0.0.1", port)).await.map_err(|e| format!("connect: {e}"))?;
        let s = tokio_rustls::TlsConnector::from(cfg.clone()).connect(ServerName::try_from("localhost").expect("name"), tcp).await.map_err(|e| format!("TLS handshake: {e}"))?;
        let der = s.get_ref().1.peer_certificates().and_then(|c| c.first().map(|x| x.to_vec())).ok_or_else(|| "no peer certificate".to_string())?;
        Ok((der, s))
    };
    tokio::time::timeout(Duration::from_secs(20), fut).await.unwrap_or_else(|_| Err("no handshake within 20 s".into()))
}

static SIG_SEQ: AtomicU64 = AtomicU64::new(0);

struct SigResult {
    facts: Facts,
    /// the history could not be executed for reasons that are not the subject's (no port, no signal handler)
    machinery: Option<String>,
}

struct SigServer {
    task: tokio::task::JoinHandle<Result<(), rusty_penguin_lib::server::Error>>,
    lease: super::c01_env::PortLease,
    /// end-entity certificate the first connection was shown
    first_der: Vec<u8>,
    /// the first TLS connection the server accepted (made with the configuration given to `start_sig_server`)
    first: TcpTls,
}

enum SigStart {
    Up(SigServer),
    /// `server_main` ended or panicked while starting: a violation has been raised
    Failed,
    /// no server after `SIG_START_ATTEMPTS` attempts, for reasons that are not the subject's
    Machinery(String),
}

/// Starts the real `server_main` on a leased loopback port with the live files `live_cert` / `live_key` (written here
/// from `start`) and waits until it completes a TLS handshake with `ccfg`.
#[allow(clippy::too_many_arguments)]
async fn start_sig_server(start: &Ident, live_cert: &str, live_key: &str, tls_ca: Option<String>, ccfg: &Arc<ClientConfig>, ctx: &str, sink: &Sink<'_>, replay: &Value) -> SigStart {
    use rusty_penguin_lib::arg::ServerArgs;
    let prepare = || {
        write(live_cert, &start.cert_pem);
        write(live_key, &start.key_pem);
    };
    let make_args = |port: u16| {
        Ok(ServerArgs {
            host: vec!["127.0.0.1".to_string()],
            port: vec![port],
            not_found_resp: "404".to_string(),
            timeout: penguin_mux::timing::OptionalDuration::from_secs(900),
            tls_cert: Some(live_cert.to_string()),
            tls_key: Some(live_key.to_string()),
            tls_ca: tls_ca.clone(),
            ..Default::default()
        })
    };
    start_sig_server_with(&prepare, &make_args, tls_ca.is_some(), "sigreload", ccfg, ctx, sink, replay).await
}

/// The body of `start_sig_server`: `prepare` puts the live files in place (every attempt), `make_args` makes the server's
/// arguments for the leased port (Err: the subject refused to make them, a violation `<key_prefix>.server-did-not-start`).
#[allow(clippy::too_many_arguments)]
async fn start_sig_server_with(prepare: &dyn Fn(), make_args: &dyn Fn(u16) -> Result<rusty_penguin_lib::arg::ServerArgs, String>, has_ca: bool, key_prefix: &str, ccfg: &Arc<ClientConfig>, ctx: &str, sink: &Sink<'_>, replay: &Value) -> SigStart {
    use rusty_penguin_lib::arg::ServerArgs;
    use std::time::Instant;
    let mut last_fail = String::new();
    'attempts: for _ in 0..SIG_START_ATTEMPTS {
        prepare();
        let lease = super::c01_env::lease_port(false);
        let args: &'static ServerArgs = match make_args(lease.port) {
            Ok(a) => Box::leak(Box::new(a)),
            Err(e) => {
                sink.viol(format!("{key_prefix}.server-did-not-start"), format!("the server's arguments could not be made: {e}; {ctx}"), replay.clone());
                return SigStart::Failed;
            }
        };
        let task = tokio::spawn(rusty_penguin_lib::server::server_main(args));
        let deadline = Instant::now() + SIG_START_DEADLINE;
        loop {
            if task.is_finished() {
                match task.await {
                    Ok(r) => {
                        let text = match r {
                            Ok(()) => "server_main returned Ok(())".to_string(),
                            Err(e) => format!("server_main returned Err: {e}"),
                        };
                        if text.contains("os error 98") || text.contains("Address already in use") || text.contains("Address in use") {
                            last_fail = text; // lost the race for the port: take another one
                            continue 'attempts;
                        }
                        sink.viol(format!("{key_prefix}.server-did-not-start"), format!("server_main with a well-formed certificate/key{} ended at once: {text}; {ctx}", if has_ca { " and client CA" } else { "" }), replay.clone());
                        return SigStart::Failed;
                    }
                    Err(je) => {
                        let text = if je.is_panic() { panic_text(&*je.into_panic()) } else { je.to_string() };
                        sink.viol(format!("{key_prefix}.panic"), format!("server_main panicked while starting: {text}; {ctx}"), replay.clone());
                        return SigStart::Failed;
                    }
                }
            }
            match tcp_observe(lease.port, ccfg).await {
                Ok((first_der, first)) => return SigStart::Up(SigServer { task, lease, first_der, first }),
                Err(e) => last_fail = format!("no TLS connection to the server within {SIG_START_DEADLINE:?} (last: {e})"),
            }
            if Instant::now() >= deadline {
                task.abort();
                continue 'attempts;
            }
            tokio::time::sleep(Duration::from_millis(25)).await;
        }
    }
    SigStart::Machinery(format!("signal-reload: the server could not be started in {SIG_START_ATTEMPTS} attempts: {last_fail}"))
}

async fn run_sig_case(pki: &Pki, c: &SigCase, sink: &Sink<'_>, counters: &Counters) -> Result<SigResult, String> {
    use std::time::Instant;
    catch(async {
        let mut facts: Facts = Vec::new();
        let replay = c.to_json();
        let ida = pki.server("trusted-ca", "localhost");
        let idb = pki.server("trusted-ca-2", "localhost");
        let label = |der: &[u8]| if der == ida.cert_der.as_slice() { "A" } else if der == idb.cert_der.as_slice() { "B" } else { "other" };
        // live files of this history only (a distinct pair per execution)
        let tag = format!("{}/sig-{}", pki.dir_path, SIG_SEQ.fetch_add(1, Ordering::Relaxed));
        let live_cert = format!("{tag}.cert.pem");
        let live_key = format!("{tag}.key.pem");
        let ccfg = sig_client_config(pki, c.client_ca);

        // ---- start the real server; the first successful TLS connection is kept for the whole history
        let SigServer { task, lease, first_der, mut first } = match start_sig_server(ida, &live_cert, &live_key, c.client_ca.then(|| pki.ca_client.path.clone()), &ccfg, &format!("{c:?}"), sink, &replay).await {
            SigStart::Up(s) => s,
            SigStart::Failed => {
                facts.push(("server.started".into(), json!(false)));
                return SigResult { facts, machinery: None };
            }
            SigStart::Machinery(m) => return SigResult { facts, machinery: Some(m) },
        };
        counters.evals.fetch_add(1, Ordering::Relaxed);
        facts.push(("server.started".into(), json!(true)));
        facts.push(("initial.sees".into(), json!(label(&first_der))));
        let port = lease.port;
        let mut ok = true;
        if label(&first_der) != "A" {
            sink.viol("sigreload.initial-identity".into(), format!("the freshly started server presents identity {} instead of the configured one; {c:?}", label(&first_der)), replay.clone());
            ok = false;
        }

        // ---- a TCP connection that is accepted now and stays silent: its TLS handshake will only START after the
        // history ("later handshakes" see the identity then in force, whenever their TCP connection was made). The
        // full connection behind it shows that the listener has taken the parked one (accepts are FIFO).
        let mut parked = tokio::net::TcpStream::connect(("127.0.0.1", port)).await.ok();
        if parked.is_some() && tcp_observe(port, &ccfg).await.is_err() {
            parked = None;
        }

        // ---- the history
        let mut machinery = None;
        let mut cur = "A";
        for (i, sym) in c.history.iter().enumerate() {
            if !ok {
                break;
            }
            let step = format!("step{}.{sym}", i + 1);
            match sym.as_str() {
                "good-B" => {
                    write(&live_cert, &idb.cert_pem);
                    write(&live_key, &idb.key_pem);
                }
                "good-A" => {
                    write(&live_cert, &ida.cert_pem);
                    write(&live_key, &ida.key_pem);
                }
                // the first half of a key file: no END line, not a usable key
                "bad-key" => write(&live_key, &ida.key_pem[..ida.key_pem.len() / 2]),
                "bad-cert" => write(&live_cert, "this is not a certificate\n"),
                other => panic!("unknown history step {other}"),
            }
            let expected = match sym.as_str() {
                "good-B" => "B",
                "good-A" => "A",
                _ => cur,
            };
            // never raise SIGUSR1 unless a handler is in place (the default action kills the process)
            if !sigusr1_has_handler() {
                machinery = Some("signal-reload: no SIGUSR1 handler is installed although the server is up; not raising the signal".to_string());
                break;
            }
            if !raise_sigusr1() {
                machinery = Some("signal-reload: raise(SIGUSR1) failed".to_string());
                break;
            }
            let done: String = c.history[..=i].join(", ");
            if expected != cur {
                // a new identity must show up on new connections before the deadline
                let deadline = Instant::now() + SIG_APPLY_DEADLINE;
                let mut last;
                loop {
                    let o = tcp_observe(port, &ccfg).await;
                    counters.evals.fetch_add(1, Ordering::Relaxed);
                    last = match &o {
                        Ok((der, _)) => format!("identity {}", label(der)),
                        Err(e) => format!("no connection ({e})"),
                    };
                    if matches!(&o, Ok((der, _)) if label(der) == expected) {
                        break;
                    }
                    if Instant::now() >= deadline {
                        ok = false;
                        break;
                    }
                    tokio::time::sleep(Duration::from_millis(20)).await;
                }
                facts.push((format!("{step}.applied"), json!(ok)));
                if !ok {
                    sink.viol(
                        "sigreload.not-applied".into(),
                        format!("running server_main, files rewritten + SIGUSR1 for each of [{done}]: {SIG_APPLY_DEADLINE:?} after the last signal new connections still get {last}, expected identity {expected} (the last well-formed certificate/key pair written); client CA {}", if c.client_ca { "set" } else { "none" }),
                        replay.clone(),
                    );
                }
            } else {
                // nothing may change: failed reload, or reload of the identity already in force
                tokio::time::sleep(SIG_SETTLE).await;
                let o = tcp_observe(port, &ccfg).await;
                counters.evals.fetch_add(1, Ordering::Relaxed);
                let seen = match &o {
                    Ok((der, _)) => label(der).to_string(),
                    Err(_) => "no-connection".to_string(),
                };
                facts.push((format!("{step}.sees"), json!(seen)));
                if seen != expected {
                    ok = false;
                    sink.viol(
                        "sigreload.identity-lost".into(),
                        format!("running server_main, files rewritten + SIGUSR1 for each of [{done}]: the identity in force must still be {expected}, but a new connection gets {}; client CA {}", match &o { Ok(_) => format!("identity {seen}"), Err(e) => format!("no connection ({e})") }, if c.client_ca { "set" } else { "none" }),
                        replay.clone(),
                    );
                }
            }
            cur = expected;
        }

        // ---- the handshake on the parked connection starts now
        if let (Some(tcp), true, true) = (parked.take(), ok, machinery.is_none()) {
            let fut = async {
                let s = tokio_rustls::TlsConnector::from(ccfg.clone()).connect(ServerName::try_from("localhost").expect("name"), tcp).await.map_err(|e| format!("TLS handshake: {e}"))?;
                s.get_ref().1.peer_certificates().and_then(|c| c.first().map(|x| x.to_vec())).ok_or_else(|| "no peer certificate".to_string())
            };
            let o: Result<Vec<u8>, String> = tokio::time::timeout(Duration::from_secs(20), fut).await.unwrap_or_else(|_| Err("no handshake within 20 s".into()));
            counters.evals.fetch_add(1, Ordering::Relaxed);
            let seen = match &o {
                Ok(der) => label(der).to_string(),
                Err(e) => format!("no-connection ({e})"),
            };
            facts.push(("parked.sees".into(), json!(seen)));
            if seen != cur {
                sink.viol(
                    "sigreload.later-handshake-on-earlier-connection-sees-replaced-identity".into(),
                    format!("running server_main, history {:?}: new connections are shown identity {cur}, but a TLS handshake STARTED after that, on a TCP connection the server had accepted before the first SIGUSR1 (and that had been silent since), got {}; client CA {}", c.history, match &o { Ok(_) => format!("identity {seen}"), Err(_) => seen.clone() }, if c.client_ca { "set" } else { "none" }),
                    replay.clone(),
                );
            }
        }

        // ---- the connection made before the first reload is still served
        let alive = tokio::time::timeout(Duration::from_secs(30), async {
            let mut b = [0u8; 5];
            first.write_all(b"GET / HTTP/1.1\r\nHost: x\r\n\r\n").await.is_ok() && first.flush().await.is_ok() && first.read_exact(&mut b).await.is_ok() && &b == b"HTTP/"
        })
        .await
        .unwrap_or(false);
        counters.evals.fetch_add(1, Ordering::Relaxed);
        facts.push(("established.alive".into(), json!(alive)));
        if !alive && machinery.is_none() {
            sink.viol("sigreload.established-connection-disturbed".into(), format!("the connection established before the first SIGUSR1 no longer gets an HTTP response after the history {:?}; client CA {}", c.history, if c.client_ca { "set" } else { "none" }), replay.clone());
        }
        if task.is_finished() {
            if let Err(je) = task.await {
                if je.is_panic() {
                    sink.viol("sigreload.panic".into(), format!("server_main panicked during the history {:?}: {}", c.history, panic_text(&*je.into_panic())), replay);
                }
            }
        } else {
            task.abort();
        }
        drop(lease);
        SigResult { facts, machinery }
    })
    .await
}

/// Runs one history in a runtime of its own; dropping it removes the server's tasks (listener, SIGUSR1 task).
fn exec_sig_case(pki: &Pki, c: &SigCase, sink: &Sink<'_>, counters: &Counters) -> Result<SigResult, String> {
    install_sigusr1_guard()?;
    let rt = runtime();
    let r = rt.block_on(run_sig_case(pki, c, sink, counters));
    drop(rt);
    match r {
        Ok(res) => Ok(res),
        Err(p) => {
            sink.viol("sigreload.panic".into(), format!("panic in signal-reload history {c:?}: {p}"), c.to_json());
            Ok(SigResult { facts: vec![("panicked".into(), json!(p))], machinery: None })
        }
    }
}

// ---------------------------------------------------------------------------------------
// Signal-reload sub-pass "symlink": reload histories through the real command-line parser with symlinked paths
//
// The histories above hand `server_main` a hand-filled `ServerArgs` and rewrite the live files in place. A deployed
// server gets its arguments from the command line (`PenguinCli`, clap) and its identity is usually rotated the way
// certificate managers do it (certbot `live/ -> archive/`, Kubernetes `..data`, `ln -sfn gen2 live`): the configured
// paths go through a symbolic link that is atomically re-pointed (new link under a temporary name, renamed over the old
// one) to the new generation of files, then SIGUSR1. Reference: whatever the configured PATH names at the time of the
// signal is what later handshakes are governed by: the new generation's server certificate is presented; with a client
// CA configured a client certified by the new generation's client CA is served and one certified by the replaced
// generation's client CA is refused.
//
// Complete product {the configured file itself is a symlink | a parent directory is a symlink} x {client CA none | set}
// x {re-point the symlink atomically | rewrite the link's target files in place (control)} x {[B]; [B, A]}, from
// generation A = (trusted-ca/localhost, client CA "ca-client") with B = (trusted-ca-2/localhost, client CA "ca-other").
// Every look is a fresh connection with a fresh client configuration; a change is awaited by polling up to
// `SYM_APPLY_DEADLINE`; "refused" / "served" are judged by what the connection positively showed (an HTTP response, or
// a failed handshake / closed connection), never by a wait running out. Absolute paths only (the working directory is
// shared by all threads). Same constraint as above: one SIGUSR1 history at a time, each in a runtime of its own.
// ---------------------------------------------------------------------------------------

const SYM_LINKS: [&str; 2] = ["file-is-symlink", "parent-dir-is-symlink"];
const SYM_METHODS: [&str; 2] = ["repoint-symlink", "rewrite-in-place"];
const SYM_HISTORIES: [&[&str]; 2] = [&["B"], &["B", "A"]];
/// the files of one generation, as certbot names them
const SYM_FILES: [&str; 3] = ["cert.pem", "privkey.pem", "ca.pem"];
/// how long the new generation may take to govern new connections after SIGUSR1
const SYM_APPLY_DEADLINE: Duration = Duration::from_secs(20);

#[derive(Clone, Debug, PartialEq, Eq, Hash)]
struct SymCase {
    alg: String,
    link: String,
    client_ca: bool,
    method: String,
    history: Vec<String>,
}

impl SymCase {
    fn to_json(&self) -> Value {
        json!({"kind": "signal-reload-symlink", "alg": self.alg, "link": self.link, "client_ca": self.client_ca, "method": self.method, "history": self.history,
               "generations": "A = server trusted-ca/localhost + client CA ca-client (in force at the start, directory gen1), B = server trusted-ca-2/localhost + client CA ca-other (directory gen2)",
               "layout": "parent-dir-is-symlink: <root>/live -> gen1, configured <root>/live/{cert.pem,privkey.pem,ca.pem}; file-is-symlink: <root>/live/ is a directory, each <root>/live/<file> -> ../gen1/<file>",
               "server": "server_main with the ServerArgs that PenguinCli::try_parse_from makes of: penguin server --host 127.0.0.1 --port <p> --404-resp 404 --timeout 900 --tls-cert <abs> --tls-key <abs> [--tls-ca <abs>]",
               "step": "repoint-symlink: make the link(s) name the step's generation (symlink under a temporary name, rename over the old link); rewrite-in-place: write the step's generation through the configured paths into the files the links name; then raise SIGUSR1 and open new TLS connections"})
    }
    fn from_json(v: &Value) -> Self {
        let s = |k: &str| v[k].as_str().unwrap_or_else(|| panic!("replay: missing {k}")).to_string();
        let history: Vec<String> = v["history"].as_array().expect("replay: history").iter().map(|s| s.as_str().expect("replay: history entry").to_string()).collect();
        let c = Self { alg: s("alg"), link: s("link"), client_ca: v["client_ca"].as_bool().unwrap_or(false), method: s("method"), history };
        assert!(SYM_LINKS.contains(&c.link.as_str()) && SYM_METHODS.contains(&c.method.as_str()) && c.history.iter().all(|h| h == "A" || h == "B"), "replay: unknown symlink case {c:?}");
        c
    }
}

/// The complete product, first key algorithm, in both tiers.
fn sym_domain(algs: &[&str]) -> Vec<SymCase> {
    let mut out = Vec::new();
    for link in SYM_LINKS {
        for client_ca in [false, true] {
            for method in SYM_METHODS {
                for h in SYM_HISTORIES {
                    out.push(SymCase { alg: algs[0].into(), link: link.into(), client_ca, method: method.into(), history: h.iter().map(|x| (*x).to_string()).collect() });
                }
            }
        }
    }
    out
}

#[derive(Default)]
struct SymStats {
    cases: AtomicU64,
    /// rotations + SIGUSR1 after which the new generation was seen to be in force
    steps_applied: AtomicU64,
    steps_applied_by_repoint: AtomicU64,
    handshakes: AtomicU64,
    /// a client of the generation in force got an HTTP response (client CA set)
    current_ca_served: AtomicU64,
    /// a client of the other generation was positively refused (client CA set)
    other_ca_refused: AtomicU64,
    /// the parser handed back the three paths exactly as given
    paths_kept_by_parser: AtomicU64,
}

/// One generation of the identity: a server certificate + key and the client CA that goes with it.
struct SymGen<'a> {
    name: &'static str,
    dir: &'static str,
    id: &'a Ident,
    ca: &'a Ca,
    /// `Pki::client` kind of the client certified by `ca`
    client: &'static str,
}

impl SymGen<'_> {
    fn content(&self, file: &str) -> &str {
        match file {
            "cert.pem" => &self.id.cert_pem,
            "privkey.pem" => &self.id.key_pem,
            "ca.pem" => &self.ca.cert_pem,
            other => panic!("unknown generation file {other}"),
        }
    }
}

/// Makes `link` name `target` atomically: a new link under a temporary name, renamed over the old one.
fn sym_repoint(link: &str, target: &str) -> Result<(), String> {
    let tmp = format!("{link}.new");
    let _ = std::fs::remove_file(&tmp);
    std::os::unix::fs::symlink(target, &tmp).map_err(|e| format!("symlink {tmp} -> {target}: {e}"))?;
    std::fs::rename(&tmp, link).map_err(|e| format!("rename {tmp} over {link}: {e}"))
}

struct SymLook {
    /// "A" | "B" | "other" | "none" (no handshake)
    cert: &'static str,
    /// Some(true): an HTTP response arrived; Some(false): the handshake failed or the connection was closed / reset
    /// instead; None: not asked for, or nothing conclusive within the wait
    served: Option<bool>,
    detail: String,
}

/// One fresh connection with a fresh client configuration: the certificate presented and, if `http`, whether the server
/// goes on to answer a request (TLS 1.3: the client's handshake is over before the server has judged its certificate).
async fn sym_look(port: u16, pki: &Pki, client_kind: Option<&str>, http: bool, label: &dyn Fn(&[u8]) -> &'static str) -> SymLook {
    let cfg = sig_client_config_for(pki, client_kind);
    match tcp_observe(port, &cfg).await {
        Err(e) if e.starts_with("connect:") || e.starts_with("no handshake within") => SymLook { cert: "none", served: None, detail: e },
        Err(e) => SymLook { cert: "none", served: http.then_some(false), detail: e },
        Ok((der, mut s)) => {
            let cert = label(&der);
            if !http {
                return SymLook { cert, served: None, detail: format!("handshake completed, identity {cert}") };
            }
            let fut = async {
                let mut b = [0u8; 5];
                s.write_all(b"GET / HTTP/1.1\r\nHost: x\r\n\r\n").await.map_err(|e| format!("write: {e}"))?;
                s.flush().await.map_err(|e| format!("flush: {e}"))?;
                s.read_exact(&mut b).await.map_err(|e| format!("read: {e}"))?;
                if &b == b"HTTP/" { Ok(()) } else { Err(format!("the answer starts with {b:?}")) }
            };
            match tokio::time::timeout(Duration::from_secs(20), fut).await {
                Ok(Ok(())) => SymLook { cert, served: Some(true), detail: format!("identity {cert}, HTTP request answered") },
                Ok(Err(e)) => SymLook { cert, served: Some(false), detail: format!("identity {cert}, client handshake completed, then no HTTP response ({e})") },
                Err(_) => SymLook { cert, served: None, detail: format!("identity {cert}, client handshake completed, no answer and no close within 20 s") },
            }
        }
    }
}

async fn run_sym_case(pki: &Pki, c: &SymCase, sink: &Sink<'_>, counters: &Counters, stats: &SymStats) -> Result<SigResult, String> {
    use rusty_penguin_lib::arg::{Commands, PenguinCli, ServerArgs};
    use std::time::Instant;
    catch(async {
        let mut facts: Facts = Vec::new();
        let replay = c.to_json();
        let gen_a = SymGen { name: "A", dir: "gen1", id: pki.server("trusted-ca", "localhost"), ca: &pki.ca_client, client: "client-ca" };
        let gen_b = SymGen { name: "B", dir: "gen2", id: pki.server("trusted-ca-2", "localhost"), ca: &pki.ca_other, client: "other-ca" };
        let (a_der, b_der) = (gen_a.id.cert_der.clone(), gen_b.id.cert_der.clone());
        let label = move |der: &[u8]| if der == a_der.as_slice() { "A" } else if der == b_der.as_slice() { "B" } else { "other" };
        let gen_of = |name: &str| if name == "A" { &gen_a } else { &gen_b };
        let by_dir = c.link == "parent-dir-is-symlink";
        let ca_text = if c.client_ca { "set" } else { "none" };

        // ---- the files: two generation directories and the live paths that go through symbolic link(s)
        let root = format!("{}/symsig-{}", pki.dir_path, SIG_SEQ.fetch_add(1, Ordering::Relaxed));
        let live = format!("{root}/live");
        let set_up = || -> Result<(), String> {
            for g in [&gen_a, &gen_b] {
                std::fs::create_dir_all(format!("{root}/{}", g.dir)).map_err(|e| format!("mkdir {root}/{}: {e}", g.dir))?;
                for f in SYM_FILES {
                    std::fs::write(format!("{root}/{}/{f}", g.dir), g.content(f)).map_err(|e| format!("write {root}/{}/{f}: {e}", g.dir))?;
                }
            }
            if by_dir {
                std::os::unix::fs::symlink(gen_a.dir, &live).map_err(|e| format!("symlink {live}: {e}"))?;
            } else {
                std::fs::create_dir(&live).map_err(|e| format!("mkdir {live}: {e}"))?;
                for f in SYM_FILES {
                    std::os::unix::fs::symlink(format!("../{}/{f}", gen_a.dir), format!("{live}/{f}")).map_err(|e| format!("symlink {live}/{f}: {e}"))?;
                }
            }
            Ok(())
        };
        if let Err(e) = set_up() {
            return SigResult { facts, machinery: Some(format!("signal-reload symlink: cannot lay out the files: {e}")) };
        }
        let path_of = |f: &str| format!("{live}/{f}");
        // the set-up is what it claims to be: every configured path is absolute, goes through a symbolic link, reads generation A
        for f in SYM_FILES {
            let p = path_of(f);
            let through_link = std::fs::canonicalize(&p).is_ok_and(|r| r.to_str() != Some(p.as_str())) && std::fs::symlink_metadata(if by_dir { live.clone() } else { p.clone() }).is_ok_and(|m| m.file_type().is_symlink());
            if !p.starts_with('/') || !through_link || std::fs::read_to_string(&p).ok().as_deref() != Some(gen_a.content(f)) {
                return SigResult { facts, machinery: Some(format!("signal-reload symlink: {p} is not an absolute path through a symbolic link to generation A's file")) };
            }
        }

        // ---- the server's arguments: the subject's own parser on a command line
        let parsed: std::cell::RefCell<Option<(Option<String>, Option<String>, Option<String>)>> = std::cell::RefCell::new(None);
        let make_args = |port: u16| -> Result<ServerArgs, String> {
            use clap::Parser as _;
            let mut argv: Vec<String> = ["penguin", "server", "--host", "127.0.0.1", "--port"].iter().map(|x| (*x).to_string()).collect();
            argv.push(port.to_string());
            argv.extend(["--404-resp", "404", "--timeout", "900"].iter().map(|x| (*x).to_string()));
            argv.extend(["--tls-cert".to_string(), path_of("cert.pem"), "--tls-key".to_string(), path_of("privkey.pem")]);
            if c.client_ca {
                argv.extend(["--tls-ca".to_string(), path_of("ca.pem")]);
            }
            match PenguinCli::try_parse_from(&argv) {
                Ok(cli) => match cli.subcommand {
                    Commands::Server(a) => {
                        *parsed.borrow_mut() = Some((a.tls_cert.clone(), a.tls_key.clone(), a.tls_ca.clone()));
                        Ok(a)
                    }
                    #[allow(unreachable_patterns)]
                    _ => Err(format!("PenguinCli::try_parse_from({argv:?}) is not a server command")),
                },
                Err(e) => Err(format!("PenguinCli::try_parse_from({argv:?}) refused the command line: {e}")),
            }
        };
        let ccfg = sig_client_config_for(pki, c.client_ca.then_some(gen_a.client));
        let SigServer { task, lease, first_der, mut first } = match start_sig_server_with(&|| {}, &make_args, c.client_ca, "sigreload.symlink", &ccfg, &format!("{c:?}"), sink, &replay).await {
            SigStart::Up(s) => s,
            SigStart::Failed => {
                facts.push(("server.started".into(), json!(false)));
                return SigResult { facts, machinery: None };
            }
            SigStart::Machinery(m) => return SigResult { facts, machinery: Some(m) },
        };
        counters.evals.fetch_add(1, Ordering::Relaxed);
        stats.handshakes.fetch_add(1, Ordering::Relaxed);
        facts.push(("server.started".into(), json!(true)));
        facts.push(("initial.sees".into(), json!(label(&first_der))));
        let port = lease.port;
        let given = (Some(path_of("cert.pem")), Some(path_of("privkey.pem")), c.client_ca.then(|| path_of("ca.pem")));
        let parsed = parsed.into_inner();
        let kept = parsed.as_ref() == Some(&given);
        stats.paths_kept_by_parser.fetch_add(u64::from(kept), Ordering::Relaxed);
        let args_text = if kept { "the parser handed the paths back as given".to_string() } else { format!("the parser turned the paths {given:?} into {parsed:?}") };

        // ---- generation `want` governs new connections: awaited (its certificate is presented and, with a client CA, its
        // client is served), then one look by the other generation's client. `done` = the steps so far ("" = at the start).
        let mut machinery: Option<String> = None;
        let mut ok = true;
        let mut cur = "A";
        for i in 0..=c.history.len() {
            let want = if i == 0 { &gen_a } else { gen_of(&c.history[i - 1]) };
            let other = if want.name == "A" { &gen_b } else { &gen_a };
            let tag = if i == 0 { "initial".to_string() } else { format!("step{i}.{}", want.name) };
            if i > 0 {
                // rotate to `want`, then signal
                let rotated = if c.method == "repoint-symlink" {
                    if by_dir { sym_repoint(&live, want.dir) } else { SYM_FILES.iter().try_for_each(|f| sym_repoint(&path_of(f), &format!("../{}/{f}", want.dir))) }
                } else {
                    SYM_FILES.iter().try_for_each(|f| std::fs::write(path_of(f), want.content(f)).map_err(|e| format!("rewrite {}: {e}", path_of(f))))
                };
                // what the configured paths name now is the new generation (whichever way it got there)
                let in_place = SYM_FILES.iter().all(|f| std::fs::read_to_string(path_of(f)).ok().as_deref() == Some(want.content(f)));
                if let Err(e) = rotated {
                    machinery = Some(format!("signal-reload symlink: cannot rotate the files: {e}"));
                    break;
                }
                if !in_place {
                    machinery = Some(format!("signal-reload symlink: after the rotation the configured paths under {live} do not read generation {}", want.name));
                    break;
                }
                // never raise SIGUSR1 unless a handler is in place (the default action kills the process)
                if !sigusr1_has_handler() {
                    machinery = Some("signal-reload symlink: no SIGUSR1 handler is installed although the server is up; not raising the signal".to_string());
                    break;
                }
                if !raise_sigusr1() {
                    machinery = Some("signal-reload symlink: raise(SIGUSR1) failed".to_string());
                    break;
                }
            }
            let done = if i == 0 { "no rotation yet".to_string() } else { format!("{} + SIGUSR1 for each of [{}]", c.method, c.history[..i].join(", ")) };
            let ctx = format!("running server_main started from the command line (--tls-cert/--tls-key{} = absolute paths where {}; {args_text}), start generation A, {done}; the configured paths now name generation {}", if c.client_ca { "/--tls-ca" } else { "" }, if by_dir { "the parent directory `live` is a symbolic link" } else { "each file is itself a symbolic link" }, want.name);
            let deadline = Instant::now() + SYM_APPLY_DEADLINE;
            let l = loop {
                let l = sym_look(port, pki, c.client_ca.then_some(want.client), c.client_ca, &label).await;
                counters.evals.fetch_add(1, Ordering::Relaxed);
                stats.handshakes.fetch_add(1, Ordering::Relaxed);
                if (l.cert == want.name && (!c.client_ca || l.served == Some(true))) || Instant::now() >= deadline {
                    break l;
                }
                tokio::time::sleep(Duration::from_millis(20)).await;
            };
            let applied = l.cert == want.name;
            facts.push((format!("{tag}.applied"), json!(applied)));
            if !applied {
                ok = false;
                let key = if i == 0 { "sigreload.symlink.initial-identity" } else { "sigreload.symlink.not-applied" };
                sink.viol(key.into(), format!("{ctx}, but {SYM_APPLY_DEADLINE:?} later a new connection{} still gets: {} (expected the server certificate of generation {}, the one the configured path names; replaced generation: {cur}); client CA {ca_text}", if c.client_ca { " by a client of that generation's client CA" } else { "" }, l.detail, want.name), replay.clone());
            }
            if c.client_ca {
                facts.push((format!("{tag}.current-ca-client-served"), json!(l.served)));
                match l.served {
                    Some(true) => {
                        stats.current_ca_served.fetch_add(1, Ordering::Relaxed);
                    }
                    Some(false) => {
                        ok = false;
                        sink.viol("sigreload.symlink.new-client-ca-refused".into(), format!("{ctx}, but {SYM_APPLY_DEADLINE:?} later a client whose certificate is issued by generation {}'s client CA (the one --tls-ca names now) is still refused: {}", want.name, l.detail), replay.clone());
                    }
                    None if applied => {
                        machinery = Some(format!("signal-reload symlink: nothing conclusive about a client of the client CA in force within {SYM_APPLY_DEADLINE:?}: {}; {c:?}", l.detail));
                        break;
                    }
                    None => {}
                }
                // the other generation's client (at the start: never configured; later: replaced)
                let o = sym_look(port, pki, Some(other.client), true, &label).await;
                counters.evals.fetch_add(1, Ordering::Relaxed);
                stats.handshakes.fetch_add(1, Ordering::Relaxed);
                facts.push((format!("{tag}.other-ca-client-served"), json!(o.served)));
                match o.served {
                    Some(true) => {
                        ok = false;
                        sink.viol("sigreload.symlink.old-client-ca-still-accepted".into(), format!("{ctx}, yet a client whose certificate is issued by generation {}'s client CA ({}) is served: {}", other.name, if i == 0 { "never configured" } else { "replaced: --tls-ca no longer names it" }, o.detail), replay.clone());
                    }
                    Some(false) => {
                        stats.other_ca_refused.fetch_add(1, Ordering::Relaxed);
                    }
                    None => {}
                }
            }
            if !ok {
                break;
            }
            if i > 0 {
                stats.steps_applied.fetch_add(1, Ordering::Relaxed);
                stats.steps_applied_by_repoint.fetch_add(u64::from(c.method == "repoint-symlink"), Ordering::Relaxed);
            }
            cur = want.name;
        }

        // ---- the connection made before the first rotation is still served
        let alive = tokio::time::timeout(Duration::from_secs(30), async {
            let mut b = [0u8; 5];
            first.write_all(b"GET / HTTP/1.1\r\nHost: x\r\n\r\n").await.is_ok() && first.flush().await.is_ok() && first.read_exact(&mut b).await.is_ok() && &b == b"HTTP/"
        })
        .await
        .unwrap_or(false);
        counters.evals.fetch_add(1, Ordering::Relaxed);
        facts.push(("established.alive".into(), json!(alive)));
        if !alive && machinery.is_none() {
            sink.viol("sigreload.symlink.established-connection-disturbed".into(), format!("the connection established before the first SIGUSR1 no longer gets an HTTP response after {} + SIGUSR1 for each of {:?} ({}); client CA {ca_text}", c.method, c.history, c.link), replay.clone());
        }
        if task.is_finished() {
            if let Err(je) = task.await {
                if je.is_panic() {
                    sink.viol("sigreload.symlink.panic".into(), format!("server_main panicked during {c:?}: {}", panic_text(&*je.into_panic())), replay);
                }
            }
        } else {
            task.abort();
        }
        drop(lease);
        SigResult { facts, machinery }
    })
    .await
}

/// Runs one symlink history in a runtime of its own; dropping it removes the server's tasks (listener, SIGUSR1 task).
fn exec_sym_case(pki: &Pki, c: &SymCase, sink: &Sink<'_>, counters: &Counters, stats: &SymStats) -> Result<SigResult, String> {
    install_sigusr1_guard()?;
    let rt = runtime();
    let r = rt.block_on(run_sym_case(pki, c, sink, counters, stats));
    drop(rt);
    match r {
        Ok(res) => Ok(res),
        Err(p) => {
            sink.viol("sigreload.symlink.panic".into(), format!("panic in signal-reload symlink history {c:?}: {p}"), c.to_json());
            Ok(SigResult { facts: vec![("panicked".into(), json!(p))], machinery: None })
        }
    }
}

// ---------------------------------------------------------------------------------------
// Returning client: ONE `rustls::ClientConfig` (hence one client-side session store) for a whole reload history
//
// Every other pass builds a fresh client configuration per handshake, so nothing is ever resumed there. An ordinary
// TLS client keeps its tickets / session ids and offers them when it comes back. The statement is about "later
// handshakes", resumed or not: a handshake after a reload is governed by the identity then in force, i.e. the client
// is shown the NEW certificate and it is admitted iff it presents a certificate issued under the NEW client CA.
//
// A history starts from identity A (client CA as given by the case, always one that admits the client), makes one
// full handshake with an echo round trip (so that the server's NewSessionTicket messages are consumed) and a clean
// close, then runs the steps: "again" = connect again, no reload; "X/ca" = reload to identity X in {A, B} with client
// CA ca in {none, ca1, ca2}, then connect again. Same client configuration throughout.
//
// What the client was shown is judged by `peer_certificates()` of the NEW connection (with a resumed session rustls
// reports the certificate of the original session: exactly the staleness looked for), next to `handshake_kind()` and
// (harness clients) the certificate handed to the verifier in this very handshake.
//
// Vacuity: the first step "again" of a history directly follows a successful full handshake without any reload; it
// MUST be a resumption, otherwise this set-up does not resume at all and the pass would say nothing (MACHINERY).
// ---------------------------------------------------------------------------------------

/// the returning clients: harness-owned (TLS 1.3 only / TLS 1.2 only; accepts any server certificate and records the
/// one presented) and the subject's own `tls::make_client_config` (verifies against the trusted CA)
const RET_CLIENTS: [&str; 3] = ["harness-tls13", "harness-tls12", "subject-make_client_config"];
const RET_STEPS: [&str; 7] = ["again", "A/none", "A/ca1", "A/ca2", "B/none", "B/ca1", "B/ca2"];
/// (client certificate, client CA in force at the start): the client must get in at the start
const RET_STARTS: [(&str, &str); 3] = [("none", "none"), ("client-ca", "none"), ("client-ca", "ca1")];
const RET_SIG: &str = "sigusr1";
const RET_NO_RELOAD: &str = "no-reload";

#[derive(Clone, Debug, PartialEq, Eq, Hash)]
struct RetCase {
    alg: String,
    /// "library.<RELOAD_HOW>", "sigusr1" (running `server_main`), "no-reload" (histories made of "again" only)
    mechanism: String,
    client: String,
    /// "none" | "client-ca" (issued by ca1)
    client_cert: String,
    /// client CA in force at the start: "none" | "ca1"
    ca0: String,
    history: Vec<String>,
}

impl RetCase {
    fn to_json(&self) -> Value {
        json!({"kind": "returning-client", "alg": self.alg, "mechanism": self.mechanism, "client": self.client, "client_cert": self.client_cert,
               "client_ca_at_start": self.ca0, "history": self.history,
               "identities": "A = trusted-ca/localhost (in force at the start), B = trusted-ca-2/localhost; ca1 = the client CA, ca2 = the other CA",
               "step": "\"again\": the same client (same rustls ClientConfig, session store kept) connects again; \"X/ca\": the identity is replaced by X with client CA ca through the mechanism, then the same client connects again; every connection: handshake, one byte each way (HTTP request/response over SIGUSR1), clean close"})
    }
    fn from_json(v: &Value) -> Self {
        let s = |k: &str| v[k].as_str().unwrap_or_else(|| panic!("replay: missing {k}")).to_string();
        let history: Vec<String> = v["history"].as_array().expect("replay: history").iter().map(|s| s.as_str().expect("replay: history entry").to_string()).collect();
        for h in &history {
            assert!(RET_STEPS.contains(&h.as_str()), "replay: unknown history step {h}");
        }
        let c = Self { alg: s("alg"), mechanism: s("mechanism"), client: s("client"), client_cert: s("client_cert"), ca0: s("client_ca_at_start"), history };
        assert!(RET_CLIENTS.contains(&c.client.as_str()), "replay: unknown client {}", c.client);
        assert!(RET_STARTS.contains(&(c.client_cert.as_str(), c.ca0.as_str())), "replay: start ({}, {}) does not admit the client", c.client_cert, c.ca0);
        c
    }
    fn flavour_index(&self) -> usize {
        RET_CLIENTS.iter().position(|f| *f == self.client).expect("client flavour")
    }
}

/// "X/ca" -> (X, ca); "again" -> None
fn ret_step(sym: &str) -> Option<(&str, &str)> {
    sym.split_once('/')
}

fn ret_histories(alphabet: &[&str], len: usize) -> Vec<Vec<String>> {
    let mut v: Vec<Vec<String>> = vec![vec![]];
    for _ in 0..len {
        v = v.into_iter().flat_map(|h| alphabet.iter().map(move |s| h.iter().cloned().chain([(*s).to_string()]).collect::<Vec<String>>())).collect();
    }
    v
}

/// Library mechanisms: every client x start x reload method x every history of length 1..=2 over the 7 steps (quick);
/// thorough: length 1..=3 for the first key algorithm, 1..=2 for the others. Histories without a reload step do not
/// depend on the method and appear once ("no-reload").
/// SIGUSR1 (sequential, real time): `server_main` cannot gain or lose its client CA at run time, only the content of
/// the CA file changes, so the steps are {again, A, B} without a client CA and {again, A/ca1, B/ca1, A/ca2, B/ca2}
/// with one. Quick: harness TLS 1.3 client, every history of length 1. Thorough: that client with every history of
/// length 1..=2, the other two clients with every history of length 1.
fn ret_domain(algs: &[&str], thorough: bool) -> Vec<RetCase> {
    let mut out = Vec::new();
    for (ai, alg) in algs.iter().enumerate() {
        let max = if thorough && ai == 0 { 3 } else { 2 };
        for client in RET_CLIENTS {
            for (client_cert, ca0) in RET_STARTS {
                for len in 1..=max {
                    for h in ret_histories(&RET_STEPS, len) {
                        let mk = |mechanism: String| RetCase { alg: (*alg).into(), mechanism, client: client.into(), client_cert: client_cert.into(), ca0: ca0.into(), history: h.clone() };
                        if h.iter().all(|s| s == "again") {
                            out.push(mk(RET_NO_RELOAD.into()));
                        } else {
                            for how in RELOAD_HOW {
                                out.push(mk(format!("library.{how}")));
                            }
                        }
                    }
                }
            }
        }
    }
    let first = algs[0];
    for (ci, client) in RET_CLIENTS.iter().enumerate() {
        if !thorough && ci > 0 {
            break;
        }
        let max = if thorough && ci == 0 { 2 } else { 1 };
        for (client_cert, ca0) in RET_STARTS {
            let alphabet: &[&str] = if ca0 == "none" { &["again", "A/none", "B/none"] } else { &["again", "A/ca1", "B/ca1", "A/ca2", "B/ca2"] };
            for len in 1..=max {
                for h in ret_histories(alphabet, len) {
                    out.push(RetCase { alg: first.into(), mechanism: RET_SIG.into(), client: (*client).into(), client_cert: client_cert.into(), ca0: ca0.into(), history: h });
                }
            }
        }
    }
    out
}

/// Accepts any server certificate (signatures are still checked) and records every end-entity certificate it was
/// handed: rustls calls the verifier exactly in the handshakes in which the server presents a certificate.
#[derive(Debug)]
struct RecordingVerifier {
    prov: Arc<CryptoProvider>,
    presented: Mutex<Vec<Vec<u8>>>,
}

impl ServerCertVerifier for RecordingVerifier {
    fn verify_server_cert(&self, ee: &CertificateDer<'_>, _: &[CertificateDer<'_>], _: &ServerName<'_>, _: &[u8], _: UnixTime) -> Result<ServerCertVerified, rustls::Error> {
        self.presented.lock().unwrap_or_else(std::sync::PoisonError::into_inner).push(ee.to_vec());
        Ok(ServerCertVerified::assertion())
    }
    fn verify_tls12_signature(&self, m: &[u8], c: &CertificateDer<'_>, d: &DigitallySignedStruct) -> Result<HandshakeSignatureValid, rustls::Error> {
        rustls::crypto::verify_tls12_signature(m, c, d, &self.prov.signature_verification_algorithms)
    }
    fn verify_tls13_signature(&self, m: &[u8], c: &CertificateDer<'_>, d: &DigitallySignedStruct) -> Result<HandshakeSignatureValid, rustls::Error> {
        rustls::crypto::verify_tls13_signature(m, c, d, &self.prov.signature_verification_algorithms)
    }
    fn supported_verify_schemes(&self) -> Vec<SignatureScheme> {
        self.prov.signature_verification_algorithms.supported_schemes()
    }
}

/// The returning client: ONE configuration, cloned `Arc`s of which make every connection of a history.
struct RetClient {
    cfg: Arc<ClientConfig>,
    rec: Option<Arc<RecordingVerifier>>,
}

impl RetClient {
    fn presented_so_far(&self) -> usize {
        self.rec.as_ref().map_or(0, |r| r.presented.lock().unwrap_or_else(std::sync::PoisonError::into_inner).len())
    }
    /// the certificate handed to the verifier since `mark` (the last one, if several)
    fn presented_since(&self, mark: usize) -> Option<Vec<u8>> {
        self.rec.as_ref().and_then(|r| r.presented.lock().unwrap_or_else(std::sync::PoisonError::into_inner).get(mark..).and_then(|s| s.last().cloned()))
    }
}

async fn ret_client(pki: &Pki, flavour: &str, client_cert: &str) -> Result<RetClient, String> {
    let id = pki.client(client_cert);
    match flavour {
        "subject-make_client_config" => {
            // session storage: whatever the subject's client configuration does (rustls default: enabled)
            let cfg = tls::make_client_config(id.map(|c| c.cert_path.as_str()), id.map(|c| c.key_path.as_str()), Some(&pki.ca_trusted.path), false, None).await.map_err(|e| e.to_string())?;
            Ok(RetClient { cfg: Arc::new(cfg), rec: None })
        }
        "harness-tls13" | "harness-tls12" => {
            let prov = provider();
            let versions: &[&rustls::SupportedProtocolVersion] = if flavour == "harness-tls13" { &[&rustls::version::TLS13] } else { &[&rustls::version::TLS12] };
            let rec = Arc::new(RecordingVerifier { prov: prov.clone(), presented: Mutex::new(Vec::new()) });
            let b = ClientConfig::builder_with_provider(prov).with_protocol_versions(versions).map_err(|e| e.to_string())?.dangerous().with_custom_certificate_verifier(rec.clone());
            let mut cfg = match id {
                Some(id) => b.with_client_auth_cert(vec![CertificateDer::from(id.cert_der.clone())], PrivateKeyDer::Pkcs8(PrivatePkcs8KeyDer::from(id.key_der.clone()))).map_err(|e| e.to_string())?,
                None => b.with_no_client_auth(),
            };
            // what an ordinary client has: tickets and session ids are kept in memory
            cfg.resumption = rustls::client::Resumption::in_memory_sessions(64);
            Ok(RetClient { cfg: Arc::new(cfg), rec: Some(rec) })
        }
        other => panic!("unknown returning client {other}"),
    }
}

#[derive(Clone, Debug, Default)]
struct RetObs {
    /// (TCP only) no TCP connection at all
    no_tcp: bool,
    connect_ok: bool,
    client_err: String,
    /// in memory: the server side's `accept`; over TCP the server side is not visible
    accept_ok: Option<bool>,
    server_err: String,
    echo_ok: bool,
    echo_err: String,
    kind: Option<rustls::HandshakeKind>,
    server_kind: Option<rustls::HandshakeKind>,
    /// `peer_certificates()[0]` of this connection on the client
    sees: Option<Vec<u8>>,
    /// certificate handed to the client's verifier during this handshake (harness clients)
    presented: Option<Vec<u8>>,
    /// in memory: the server's `peer_certificates()`
    server_peer_certs: Option<Vec<Vec<u8>>>,
    timed_out: bool,
}

impl RetObs {
    fn accepted(&self) -> bool {
        self.accept_ok == Some(true) || self.echo_ok
    }
    fn success(&self) -> bool {
        self.connect_ok && self.echo_ok && self.accept_ok != Some(false)
    }
    fn resumed(&self) -> bool {
        self.kind == Some(rustls::HandshakeKind::Resumed) || self.server_kind == Some(rustls::HandshakeKind::Resumed)
    }
}

fn kind_text(k: Option<rustls::HandshakeKind>) -> &'static str {
    match k {
        None => "none",
        Some(rustls::HandshakeKind::Full) => "full",
        Some(rustls::HandshakeKind::FullWithHelloRetryRequest) => "full-with-hello-retry",
        Some(rustls::HandshakeKind::Resumed) => "resumed",
    }
}

/// One connection of the returning client over an in-memory pipe. The server side does what `server_main` does with
/// an accepted TCP connection: wait for the ClientHello, THEN take the identity in force (`LazyConfigAcceptor`).
async fn ret_handshake_mem(ident: &tls::TlsIdentity, client: &RetClient) -> RetObs {
    let mark = client.presented_so_far();
    let (cio, sio) = tokio::io::duplex(1 << 16);
    let client_side = async {
        let mut o = RetObs::default();
        match tokio_rustls::TlsConnector::from(client.cfg.clone()).connect(ServerName::try_from("localhost").expect("name"), cio).await {
            Err(e) => o.client_err = e.to_string(),
            Ok(mut s) => {
                o.connect_ok = true;
                o.kind = s.get_ref().1.handshake_kind();
                o.sees = s.get_ref().1.peer_certificates().and_then(|c| c.first().map(|x| x.to_vec()));
                // the round trip: the reply byte comes after the server's NewSessionTicket messages
                let mut b = [0u8; 1];
                let r: std::io::Result<()> = async {
                    s.write_all(b"c").await?;
                    s.flush().await?;
                    s.read_exact(&mut b).await?;
                    Ok(())
                }
                .await;
                match r {
                    Ok(()) => o.echo_ok = b[0] == b's',
                    Err(e) => o.echo_err = e.to_string(),
                }
                // clean close: close_notify out, then read to the server's
                let _ = s.shutdown().await;
                let mut sinkbuf = [0u8; 64];
                while matches!(s.read(&mut sinkbuf).await, Ok(n) if n > 0) {}
            }
        }
        o
    };
    let server_side = async {
        let start = tokio_rustls::LazyConfigAcceptor::new(rustls::server::Acceptor::default(), sio).await.map_err(|e| e.to_string())?;
        let mut s = start.into_stream(ident.load_full()).await.map_err(|e| e.to_string())?;
        let kind = s.get_ref().1.handshake_kind();
        let certs = s.get_ref().1.peer_certificates().map(|c| c.iter().map(|x| x.to_vec()).collect::<Vec<_>>());
        let mut b = [0u8; 1];
        let echo = s.read_exact(&mut b).await.is_ok() && b[0] == b'c' && s.write_all(b"s").await.is_ok() && s.flush().await.is_ok();
        let mut sinkbuf = [0u8; 64];
        while matches!(s.read(&mut sinkbuf).await, Ok(n) if n > 0) {}
        let _ = s.shutdown().await;
        Ok::<_, String>((kind, certs, echo))
    };
    let Ok((mut o, sr)) = tokio::time::timeout(Duration::from_secs(30), async { tokio::join!(client_side, server_side) }).await else {
        return RetObs { timed_out: true, ..RetObs::default() };
    };
    match sr {
        Ok((kind, certs, echo)) => {
            o.accept_ok = Some(true);
            o.server_kind = kind;
            o.server_peer_certs = certs;
            o.echo_ok = o.echo_ok && echo;
        }
        Err(e) => {
            o.accept_ok = Some(false);
            o.server_err = e;
        }
    }
    o.presented = client.presented_since(mark);
    o
}

/// One connection over loopback TCP to the running `server_main`; the round trip is an HTTP request / the first bytes
/// of the response.
async fn ret_handshake_tcp(port: u16, cfg: &Arc<ClientConfig>, client: Option<&RetClient>) -> RetObs {
    let mark = client.map_or(0, RetClient::presented_so_far);
    let fut = async {
        let mut o = RetObs::default();
        let tcp = match tokio::net::TcpStream::connect(("127.0.0.1", port)).await {
            Ok(t) => t,
            Err(e) => {
                o.no_tcp = true;
                o.client_err = format!("connect: {e}");
                return o;
            }
        };
        match tokio_rustls::TlsConnector::from(cfg.clone()).connect(ServerName::try_from("localhost").expect("name"), tcp).await {
            Err(e) => o.client_err = e.to_string(),
            Ok(mut s) => {
                o.connect_ok = true;
                o.kind = s.get_ref().1.handshake_kind();
                o.sees = s.get_ref().1.peer_certificates().and_then(|c| c.first().map(|x| x.to_vec()));
                let mut b = [0u8; 5];
                let r: std::io::Result<()> = async {
                    s.write_all(b"GET / HTTP/1.1\r\nHost: x\r\n\r\n").await?;
                    s.flush().await?;
                    s.read_exact(&mut b).await?;
                    Ok(())
                }
                .await;
                match r {
                    Ok(()) => o.echo_ok = &b == b"HTTP/",
                    Err(e) => o.echo_err = e.to_string(),
                }
                let _ = s.shutdown().await;
            }
        }
        o
    };
    let mut o = tokio::time::timeout(Duration::from_secs(10), fut).await.unwrap_or(RetObs { timed_out: true, ..RetObs::default() });
    o.presented = client.and_then(|c| c.presented_since(mark));
    o
}

#[derive(Default)]
struct RetStats {
    histories: AtomicU64,
    sig_histories: AtomicU64,
    handshakes: AtomicU64,
    /// per RET_CLIENTS entry: resumed handshakes in a step without reload
    resumed_without_reload: [AtomicU64; 3],
    resumed_across_reload: AtomicU64,
    full_after_reload: AtomicU64,
    expected_accepts: AtomicU64,
    expected_rejections: AtomicU64,
    observed_rejections: AtomicU64,
    controls_run: AtomicU64,
    controls_resumed: AtomicU64,
    control_failures: Mutex<Vec<String>>,
}

struct RetResult {
    facts: Facts,
    machinery: Option<String>,
}

static RET_SEQ: AtomicU64 = AtomicU64::new(0);

/// Reference: is a client with that certificate admitted while that client CA is in force?
fn ret_admitted(client_cert: &str, ca: &str) -> bool {
    match (ca, client_cert) {
        ("none", _) | ("ca1", "client-ca") => true,
        ("ca1" | "ca2", "none") | ("ca2", "client-ca") => false,
        other => panic!("unknown (client CA, client certificate) {other:?}"),
    }
}

/// Judges the returning client's connection made while (`ident`, `ca`) is in force. `done` = the steps so far.
#[allow(clippy::too_many_arguments)]
fn judge_ret_handshake(pki: &Pki, c: &RetCase, tag: &str, done: &[String], reload_in_step: bool, ident: &str, ca: &str, o: &RetObs, sink: &Sink<'_>, facts: &mut Facts, stats: &RetStats) {
    let replay = c.to_json();
    let a = &pki.server("trusted-ca", "localhost").cert_der;
    let b = &pki.server("trusted-ca-2", "localhost").cert_der;
    let label = |d: Option<&Vec<u8>>| match d {
        None => "none",
        Some(d) if d == a => "A",
        Some(d) if d == b => "B",
        Some(_) => "other",
    };
    let expect = ret_admitted(&c.client_cert, ca);
    stats.handshakes.fetch_add(1, Ordering::Relaxed);
    if expect { &stats.expected_accepts } else { &stats.expected_rejections }.fetch_add(1, Ordering::Relaxed);
    if !o.accepted() {
        stats.observed_rejections.fetch_add(1, Ordering::Relaxed);
    }
    if o.resumed() {
        if reload_in_step {
            stats.resumed_across_reload.fetch_add(1, Ordering::Relaxed);
        } else {
            stats.resumed_without_reload[c.flavour_index()].fetch_add(1, Ordering::Relaxed);
        }
    } else if reload_in_step && o.connect_ok {
        stats.full_after_reload.fetch_add(1, Ordering::Relaxed);
    }
    facts.push((format!("{tag}.accepted"), json!(o.accepted())));
    facts.push((format!("{tag}.handshake"), json!(kind_text(o.kind))));
    facts.push((format!("{tag}.sees"), json!(label(o.sees.as_ref()))));
    facts.push((format!("{tag}.presented-now"), json!(label(o.presented.as_ref()))));
    if o.accept_ok.is_some() {
        facts.push((format!("{tag}.server-handshake"), json!(kind_text(o.server_kind))));
        facts.push((format!("{tag}.server-peer-certs"), json!(o.server_peer_certs.as_ref().map(Vec::len))));
    }
    let ctx = format!(
        "returning client {} (one ClientConfig for the whole history, client certificate {}), mechanism {}; start: identity A, client CA {}; steps so far {done:?}; now in force: identity {ident}, client CA {ca}; this connection: handshake {} (server side: {}), client connect ok={} ({:?}), server accept {:?} ({:?}), round trip ok={} ({:?}), client's peer_certificates() = identity {}, certificate handed to its verifier in this handshake: {}",
        c.client,
        c.client_cert,
        c.mechanism,
        c.ca0,
        kind_text(o.kind),
        kind_text(o.server_kind),
        o.connect_ok,
        o.client_err,
        o.accept_ok,
        o.server_err,
        o.echo_ok,
        o.echo_err,
        label(o.sees.as_ref()),
        if c.client.starts_with("harness") { label(o.presented.as_ref()) } else { "not recorded" },
    );
    if o.timed_out {
        sink.viol("reload.returning-client.hang".into(), format!("the connection did not finish within its deadline; {ctx}"), replay);
        return;
    }
    if o.no_tcp {
        sink.viol("reload.returning-client.no-connection".into(), format!("the running server no longer takes TCP connections; {ctx}"), replay);
        return;
    }
    // --- admitted exactly as the identity NOW in force says
    if expect {
        if !o.success() {
            sink.viol("reload.returning-client-rejected-wrongly".into(), format!("the client must be admitted (no client CA in force, or its certificate is issued by the one in force) but the connection failed; {ctx}"), replay.clone());
        }
    } else if o.accepted() {
        if c.client_cert == "none" {
            sink.viol("reload.returning-client-accepted-without-client-cert".into(), format!("a client CA is in force and the client has no certificate, yet the server completed the handshake / served the connection; {ctx}"), replay.clone());
        } else {
            sink.viol("reload.returning-client-accepted-under-replaced-ca".into(), format!("the client's certificate is issued by ca1, the client CA in force is {ca}, yet the server completed the handshake / served the connection; {ctx}"), replay.clone());
        }
    }
    // --- shown the certificate NOW in force
    if o.connect_ok && o.echo_ok {
        match (label(o.sees.as_ref()), ident) {
            (seen, want) if seen == want => {}
            ("A" | "B", _) => sink.viol(
                "reload.returning-client-sees-old-certificate".into(),
                format!("the identity in force is {ident} but this connection of the returning client carries the certificate of the other identity ({}); {ctx}", if o.resumed() { "the handshake was a resumption: the server never presented its current certificate" } else { "full handshake" }),
                replay.clone(),
            ),
            _ => sink.viol("reload.returning-client-sees-other-certificate".into(), format!("the connection carries neither identity's certificate; {ctx}"), replay.clone()),
        }
    }
    // --- what the server knows about its peer (visible in memory only)
    if o.accept_ok == Some(true) {
        if ca == "none" && o.server_peer_certs.is_some() {
            sink.viol("server.peer-certs-without-client-ca".into(), format!("no client CA is in force, yet the server's connection reports a client certificate; {ctx}"), replay);
        } else if ca != "none" && expect && o.server_peer_certs != pki.client(&c.client_cert).map(|i| vec![i.cert_der.clone()]) {
            sink.viol("reload.returning-client-not-authenticated".into(), format!("a client CA is in force and the handshake completed, but the server's peer_certificates() is not the client's chain (the client was never asked to authenticate under the CA in force); {ctx}"), replay);
        }
    }
}

/// Runs one returning-client history. Library mechanisms: in memory; `sigusr1`: against a running `server_main`
/// (the caller makes sure no other SIGUSR1 history runs at the same time).
async fn run_ret_case(pki: &Pki, c: &RetCase, sink: &Sink<'_>, counters: &Counters, stats: &RetStats) -> Result<RetResult, String> {
    use std::time::Instant;
    catch(async {
        let mut facts: Facts = Vec::new();
        let replay = c.to_json();
        let ida = pki.server("trusted-ca", "localhost");
        let idb = pki.server("trusted-ca-2", "localhost");
        let id_of = |x: &str| if x == "A" { ida } else { idb };
        let ca_path = |ca: &str| match ca {
            "none" => None,
            "ca1" => Some(pki.ca_client.path.as_str()),
            "ca2" => Some(pki.ca_other.path.as_str()),
            other => panic!("unknown client CA {other}"),
        };
        let sig = c.mechanism == RET_SIG;
        let client = match ret_client(pki, &c.client, &c.client_cert).await {
            Ok(cl) => cl,
            Err(e) => {
                sink.viol("reload.returning-client.client-config-rejected".into(), format!("the client configuration cannot be built from well-formed files: {e}; {c:?}"), replay);
                return RetResult { facts, machinery: None };
            }
        };
        // live files of this execution only
        let tag = format!("{}/ret-{}", pki.dir_path, RET_SEQ.fetch_add(1, Ordering::Relaxed));
        let (live_cert, live_key, live_ca) = (format!("{tag}.cert.pem"), format!("{tag}.key.pem"), format!("{tag}.ca.pem"));
        write(&live_cert, &ida.cert_pem);
        write(&live_key, &ida.key_pem);
        let ca_pem = |ca: &str| std::fs::read_to_string(ca_path(ca).expect("a client CA")).expect("CA file");

        enum Srv {
            Lib(tls::TlsIdentity),
            Sig(SigServer, Arc<ClientConfig>),
        }
        let srv = if sig {
            // fresh, non-resuming probe client of the same kind: tells when a reload has been applied
            let probe = sig_client_config(pki, c.client_cert == "client-ca");
            let tls_ca = (c.ca0 != "none").then(|| {
                write(&live_ca, &ca_pem(&c.ca0));
                live_ca.clone()
            });
            match start_sig_server(ida, &live_cert, &live_key, tls_ca, &probe, &format!("{c:?}"), sink, &replay).await {
                SigStart::Up(s) => Srv::Sig(s, probe),
                SigStart::Failed => {
                    facts.push(("server.started".into(), json!(false)));
                    return RetResult { facts, machinery: None };
                }
                SigStart::Machinery(m) => return RetResult { facts, machinery: Some(m) },
            }
        } else {
            match tls::make_tls_identity(&live_cert, &live_key, ca_path(&c.ca0)).await {
                Ok(i) => Srv::Lib(i),
                Err(e) => {
                    sink.viol("server.config-rejected.make_tls_identity".into(), format!("{e}; {c:?}"), replay.clone());
                    return RetResult { facts, machinery: None };
                }
            }
        };
        counters.evals.fetch_add(1, Ordering::Relaxed);
        let connect = async |srv: &Srv| match srv {
            Srv::Lib(ident) => ret_handshake_mem(ident, &client).await,
            Srv::Sig(s, _) => ret_handshake_tcp(s.lease.port, &client.cfg, Some(&client)).await,
        };

        let (mut ident, mut ca) = ("A".to_string(), c.ca0.clone());
        let mut machinery = None;
        // ---- the first visit: full handshake, tickets / session id taken home
        let o0 = connect(&srv).await;
        counters.evals.fetch_add(1, Ordering::Relaxed);
        judge_ret_handshake(pki, c, "first", &[], false, &ident, &ca, &o0, sink, &mut facts, stats);
        let mut go_on = o0.success();
        if go_on && o0.resumed() {
            machinery = Some(format!("returning-client: the very first handshake of a new client configuration is reported as a resumption; {c:?}"));
            go_on = false;
        }
        // ---- the steps
        for (i, sym) in c.history.iter().enumerate() {
            if !go_on {
                break;
            }
            let tag = format!("step{}.{sym}", i + 1);
            let done = &c.history[..=i];
            if let Some((x, new_ca)) = ret_step(sym) {
                let new = id_of(x);
                let changed = x != ident || new_ca != ca;
                match &srv {
                    Srv::Lib(tls_ident) => {
                        let r = match c.mechanism.as_str() {
                            "library.same-paths-overwritten" => {
                                write(&live_cert, &new.cert_pem);
                                write(&live_key, &new.key_pem);
                                tls::reload_tls_identity(tls_ident, &live_cert, &live_key, ca_path(new_ca)).await
                            }
                            "library.other-paths" => tls::reload_tls_identity(tls_ident, &new.cert_path, &new.key_path, ca_path(new_ca)).await,
                            "library.from-pem" => tls::reload_tls_identity_from_pem(tls_ident, new.cert_pem.clone(), new.key_pem.clone(), ca_path(new_ca)).await,
                            other => panic!("unknown mechanism {other}"),
                        };
                        counters.evals.fetch_add(1, Ordering::Relaxed);
                        facts.push((format!("{tag}.reload-ok"), json!(r.is_ok())));
                        if let Err(e) = r {
                            sink.viol(format!("reload.fails.{}", c.mechanism.trim_start_matches("library.")), format!("reloading to a well-formed identity fails: {e}; {c:?}, steps so far {done:?}"), replay.clone());
                            break;
                        }
                    }
                    Srv::Sig(s, probe) => {
                        assert!((new_ca == "none") == (c.ca0 == "none"), "a running server_main cannot gain or lose its client CA");
                        write(&live_cert, &new.cert_pem);
                        write(&live_key, &new.key_pem);
                        if new_ca != "none" {
                            write(&live_ca, &ca_pem(new_ca));
                        }
                        // never raise SIGUSR1 unless a handler is in place (the default action kills the process)
                        if !sigusr1_has_handler() {
                            machinery = Some("returning-client: no SIGUSR1 handler is installed although the server is up; not raising the signal".to_string());
                            break;
                        }
                        if !raise_sigusr1() {
                            machinery = Some("returning-client: raise(SIGUSR1) failed".to_string());
                            break;
                        }
                        if changed {
                            // a FRESH client of the same kind must observe the new state before the returning one is judged:
                            // new certificate, and admitted exactly as the new client CA says (a rejection must be a positive
                            // one: handshake done, then the round trip refused, not a timeout)
                            let want_der = &new.cert_der;
                            let want_in = ret_admitted(&c.client_cert, new_ca);
                            let deadline = Instant::now() + SIG_APPLY_DEADLINE;
                            let mut last;
                            let mut applied;
                            loop {
                                let p = ret_handshake_tcp(s.lease.port, probe, None).await;
                                counters.evals.fetch_add(1, Ordering::Relaxed);
                                applied = p.connect_ok && !p.timed_out && p.sees.as_ref() == Some(want_der) && p.echo_ok == want_in;
                                last = format!("connect ok={} ({:?}), certificate is the new one: {}, round trip ok={} ({:?})", p.connect_ok, p.client_err, p.sees.as_ref() == Some(want_der), p.echo_ok, p.echo_err);
                                if applied || Instant::now() >= deadline {
                                    break;
                                }
                                tokio::time::sleep(Duration::from_millis(20)).await;
                            }
                            facts.push((format!("{tag}.applied"), json!(applied)));
                            if !applied {
                                sink.viol(
                                    "sigreload.not-applied".into(),
                                    format!("running server_main, live certificate/key{} files rewritten + SIGUSR1 for each of {done:?}: {SIG_APPLY_DEADLINE:?} after the last signal a fresh client (certificate {}) still gets: {last}; expected identity {x}, admitted={want_in}", if new_ca == "none" { "" } else { "/client-CA" }, c.client_cert),
                                    replay.clone(),
                                );
                                break;
                            }
                        } else {
                            tokio::time::sleep(SIG_SETTLE).await;
                        }
                    }
                }
                ident = x.to_string();
                ca = new_ca.to_string();
            }
            let o = connect(&srv).await;
            counters.evals.fetch_add(1, Ordering::Relaxed);
            judge_ret_handshake(pki, c, &tag, done, ret_step(sym).is_some(), &ident, &ca, &o, sink, &mut facts, stats);
            // control: right after the successful first visit, nothing reloaded: this set-up must resume
            if i == 0 && sym == "again" {
                stats.controls_run.fetch_add(1, Ordering::Relaxed);
                if o.resumed() {
                    stats.controls_resumed.fetch_add(1, Ordering::Relaxed);
                } else if o.success() {
                    stats.control_failures.lock().unwrap_or_else(std::sync::PoisonError::into_inner).push(format!("{} / client certificate {} / client CA {} / {}: second visit without reload was a {} handshake", c.client, c.client_cert, c.ca0, c.mechanism, kind_text(o.kind)));
                }
            }
            if o.timed_out || o.no_tcp {
                break;
            }
        }
        if let Srv::Sig(s, _) = srv {
            let SigServer { task, lease, first, .. } = s;
            drop(first);
            if task.is_finished() {
                if let Err(je) = task.await {
                    if je.is_panic() {
                        sink.viol("sigreload.panic".into(), format!("server_main panicked during the returning-client history {c:?}: {}", panic_text(&*je.into_panic())), replay);
                    }
                }
            } else {
                task.abort();
            }
            drop(lease);
        }
        RetResult { facts, machinery }
    })
    .await
}

/// One returning-client history; a SIGUSR1 one gets a runtime of its own (dropped at the end, which removes that
/// server's listener and signal task), like the signal-reload histories.
fn exec_ret_case(rt: &tokio::runtime::Runtime, pki: &Pki, c: &RetCase, sink: &Sink<'_>, counters: &Counters, stats: &RetStats) -> RetResult {
    let r = if c.mechanism == RET_SIG {
        if let Err(m) = install_sigusr1_guard() {
            return RetResult { facts: Vec::new(), machinery: Some(m) };
        }
        let own = runtime();
        let r = own.block_on(run_ret_case(pki, c, sink, counters, stats));
        drop(own);
        stats.sig_histories.fetch_add(1, Ordering::Relaxed);
        r
    } else {
        rt.block_on(run_ret_case(pki, c, sink, counters, stats))
    };
    stats.histories.fetch_add(1, Ordering::Relaxed);
    match r {
        Ok(res) => res,
        Err(p) => {
            sink.viol("reload.returning-client.panic".into(), format!("panic in returning-client history {c:?}: {p}"), c.to_json());
            RetResult { facts: vec![("panicked".into(), json!(p))], machinery: None }
        }
    }
}

// ---------------------------------------------------------------------------------------
// Which name does the real client ask for?  (`--tls-server-name` > `--hostname` > URL host)
// ---------------------------------------------------------------------------------------

#[derive(Clone, Debug, PartialEq, Eq, Hash)]
struct NameCase {
    alg: String,
    /// SAN of the (trusted-CA) server certificate
    san: String,
    hostname: Option<String>,
    tls_server_name: Option<String>,
    skip: bool,
}

impl NameCase {
    fn to_json(&self) -> Value {
        json!({"kind": "client-name", "alg": self.alg, "san": self.san, "url_host": "127.0.0.1", "hostname": self.hostname, "tls_server_name": self.tls_server_name, "skip_verify": self.skip})
    }
    fn from_json(v: &Value) -> Self {
        let s = |k: &str| v[k].as_str().map(str::to_string);
        Self { alg: s("alg").expect("alg"), san: s("san").expect("san"), hostname: s("hostname"), tls_server_name: s("tls_server_name"), skip: v["skip_verify"].as_bool().expect("skip_verify") }
    }
    /// Documented precedence (ClientArgs doc comments / README).
    fn selected(&self) -> &str {
        self.tls_server_name.as_deref().or(self.hostname.as_deref()).unwrap_or("127.0.0.1")
    }
}

#[derive(Clone, Debug, PartialEq, Eq)]
struct NameObs {
    /// the TLS handshake completed on the server side and the client went on to send its request
    client_went_on: bool,
    sni_seen: Option<String>,
    server_err: String,
    no_connection: bool,
}

/// Runs the crate's real client main loop (`client_main_inner`) against a harness listener
/// that terminates TLS with a subject-built `ServerConfig` and watches what arrives.
async fn run_name_case(pki: &Pki, c: &NameCase) -> Result<NameObs, String> {
    use rusty_penguin_lib::arg::{ClientArgs, Remote, ServerUrl};
    use std::str::FromStr;
    catch(async {
        let id = pki.server("trusted-ca", &c.san);
        let cfg = Arc::new(tls::make_server_config(&id.cert_path, &id.key_path, None).await.expect("server config"));
        let l = tokio::net::TcpListener::bind("127.0.0.1:0").await.expect("bind");
        let port = l.local_addr().expect("addr").port();
        let args = ClientArgs {
            server: ServerUrl::from_str(&format!("wss://127.0.0.1:{port}/ws")).expect("server url"),
            remote: vec![Remote::from_str("127.0.0.1:0:socks").expect("remote")],
            keepalive: penguin_mux::timing::OptionalDuration::NONE,
            max_retry_count: 1,
            max_retry_interval: 10,
            handshake_timeout: penguin_mux::timing::OptionalDuration::from_secs(10),
            hostname: c.hostname.as_deref().map(|h| http::HeaderValue::from_str(h).expect("hostname")),
            tls_server_name: c.tls_server_name.clone(),
            tls_ca: Some(pki.ca_trusted.path.clone()),
            tls_skip_verify: c.skip,
            ..Default::default()
        };
        let args: &'static ClientArgs = Box::leak(Box::new(args));
        let (hr, srx, drx) = rusty_penguin_lib::client::HandlerResources::create();
        let hr: &'static _ = Box::leak(Box::new(hr));
        let client = tokio::spawn(async move {
            let _ = catch(rusty_penguin_lib::client::client_main_inner(args, hr, srx, drx)).await;
        });
        let obs = tokio::time::timeout(Duration::from_secs(20), async {
            let Ok((stream, _)) = l.accept().await else {
                return NameObs { client_went_on: false, sni_seen: None, server_err: "accept failed".into(), no_connection: true };
            };
            match tokio_rustls::TlsAcceptor::from(cfg).accept(stream).await {
                Err(e) => NameObs { client_went_on: false, sni_seen: None, server_err: e.to_string(), no_connection: false },
                Ok(mut s) => {
                    let sni = s.get_ref().1.server_name().map(str::to_string);
                    let mut b = [0u8; 4];
                    let went_on = s.read_exact(&mut b).await.is_ok() && &b == b"GET ";
                    NameObs { client_went_on: went_on, sni_seen: sni, server_err: String::new(), no_connection: false }
                }
            }
        })
        .await
        .unwrap_or(NameObs { client_went_on: false, sni_seen: None, server_err: "timeout".into(), no_connection: true });
        client.abort();
        let _ = client.await;
        obs
    })
    .await
}

fn judge_name(c: &NameCase, o: &Result<NameObs, String>, sink: &Sink<'_>) -> bool {
    let selected = c.selected();
    let expect_ok = c.skip || c.san == selected;
    let replay = c.to_json();
    let ctx = format!("URL host 127.0.0.1, --hostname {:?}, --tls-server-name {:?}, skip_verify={}, certificate is for {:?}; the documented choice is {selected:?}", c.hostname, c.tls_server_name, c.skip, c.san);
    let o = match o {
        Err(p) => {
            sink.viol("client-name.panic".into(), format!("panic: {p}; {ctx}"), replay);
            return expect_ok;
        }
        Ok(o) => o,
    };
    if o.no_connection {
        sink.viol("client-name.no-connection".into(), format!("the client never connected ({}); {ctx}", o.server_err), replay);
        return expect_ok;
    }
    if o.client_went_on && !expect_ok {
        sink.viol("client.accepts-server.name-mismatch.skip-verify-off".into(), format!("the real client completed TLS and sent its request although the certificate does not match the name it must ask for; {ctx}"), replay.clone());
    }
    if !o.client_went_on && expect_ok {
        sink.viol(
            format!("client-name.rejects-matching-certificate.{}", if c.tls_server_name.is_some() { "tls-server-name" } else if c.hostname.is_some() { "hostname" } else { "url-host" }),
            format!("the real client did not complete the handshake (server side: {:?}); {ctx}", o.server_err),
            replay.clone(),
        );
    }
    if o.client_went_on {
        // SNI carries DNS names only
        let want_sni = selected.parse::<std::net::IpAddr>().is_err().then(|| selected.to_string());
        if o.sni_seen != want_sni {
            sink.viol("client-name.wrong-sni".into(), format!("SNI on the wire is {:?}, expected {want_sni:?}; {ctx}", o.sni_seen), replay);
        }
    }
    expect_ok
}

fn name_domain(algs: &[&str]) -> Vec<NameCase> {
    let mut v = Vec::new();
    let alg = algs[0];
    for san in SANS {
        for hostname in [None, Some("localhost"), Some("other.test")] {
            for sni in [None, Some("localhost"), Some("other.test")] {
                for skip in [false, true] {
                    v.push(NameCase { alg: alg.into(), san: san.into(), hostname: hostname.map(str::to_string), tls_server_name: sni.map(str::to_string), skip });
                }
            }
        }
    }
    // IPv6 literals as the name to ask for (through --tls-server-name and through --hostname): exactly the certificate for
    // that address is accepted, not the one for the address that remains when the last group is taken for a port
    for san in ["fd00::1:2", "fd00::1", "localhost"] {
        for name in V6_SANS {
            for skip in [false, true] {
                v.push(NameCase { alg: alg.into(), san: san.into(), hostname: None, tls_server_name: Some(name.to_string()), skip });
                v.push(NameCase { alg: alg.into(), san: san.into(), hostname: Some(name.to_string()), tls_server_name: None, skip });
            }
        }
    }
    v
}

// ---------------------------------------------------------------------------------------
// Crypto provider x key type of the peer being authenticated ("provider-matrix" pass)
//
// The subject has two rustls crypto providers: the default aws-lc-rs one and the "Chromium-like" one
// (`tls/aws_lc_rs_chromium.rs`, its own cipher-suite / key-exchange / signature-verification tables), chosen process-wide
// by `tls::init_crypto_provider()` when PENGUIN_TLS_CHROMIUM_LIKE is non-empty. Which algorithm checks the peer's
// handshake signature depends on (provider table, key type of the peer's leaf certificate), so both are dimensions of the
// core matrix: a reduced product (server certificate x name x skip-verify x client certificate x client CA) is run for
// every (server leaf key type, client leaf key type) under each provider and judged by `judge_matrix`, i.e. by the very
// reference predicate of the core matrix. CAs stay P-256.
//
// A provider can be installed once per process. The default-provider half runs in this process (jobs of the pool); the
// Chromium-like half is run by a CHILD: the vapp binary once more, `C17 --tier T --threads N` without `--out` (the report
// goes to its standard output, which the parent points at a file), with `PROV_CHILD_ENV` and PENGUIN_TLS_CHROMIUM_LIKE=1
// in its environment. The child installs the provider the way a user's process does (`tls::init_crypto_provider()`),
// checks that what got installed IS the Chromium-like one (else: machinery error), runs the sub-matrix and puts
// everything it found into `extra.provider` of its report; its own violation list stays empty, the parent merges what it
// found under the key prefix `chromium.`. A child that cannot be started, does not finish, or hands back nothing
// readable is a MACHINERY error, never a verdict.
//
// Key types: only those the UNCHANGED tree accepts under the provider in question. The Chromium-like tables leave
// out Ed25519 (and P-521) on purpose, so a peer with such a key is outside the matrix there.
// ---------------------------------------------------------------------------------------

/// set in the child: run the provider-matrix pass (or the cases of `PROV_CASES_ENV`) under the Chromium-like provider
const PROV_CHILD_ENV: &str = "VERIF_C17_PROVIDER_CHILD";
/// optional, for the child: `{"cases": [case JSON ...], "runs": N}` instead of the whole sub-matrix (replay)
const PROV_CASES_ENV: &str = "VERIF_C17_PROVIDER_CASES";
/// testing aid (parent and child): comma-separated leaf key types of the Chromium-like half instead of `PROV_KEYS_CHROMIUM`
/// (used to establish, on the unchanged tree, which key types that provider accepts)
const PROV_KEYS_ENV: &str = "VERIF_C17_PROVIDER_KEYS";
/// what `tls::init_crypto_provider` looks at
const CHROMIUM_ENV: &str = "PENGUIN_TLS_CHROMIUM_LIKE";

const PROVIDERS: [&str; 2] = ["default", "chromium"];
/// leaf key types under the default provider
const PROV_KEYS_DEFAULT: [&str; 4] = ["p256", "p384", "ed25519", "rsa2048"];
/// leaf key types under the Chromium-like provider: its `mapping` table has no ED25519 (nor ECDSA_NISTP521_SHA512) entry, so
/// an Ed25519 peer is refused there by design ("peer is incompatible: no signature schemes in common"), on the unchanged tree
const PROV_KEYS_CHROMIUM: [&str; 3] = ["p256", "p384", "rsa2048"];
const PROV_CA_KEY: &str = "p256";
const PROV_SERVER_KINDS: [&str; 3] = ["trusted-ca", "other-ca", "self-signed"];
const PROV_CLIENT_KINDS: [&str; 3] = ["none", "client-ca", "other-ca"];
/// (certificate SAN, requested name): matches, differs
const PROV_NAMES: [(&str, &str); 2] = [("localhost", "localhost"), ("localhost", "other.test")];
const PROV_ROOTS: &str = "trusted-ca";
const PROV_CTOR: &str = "make_tls_identity";
const PROV_CHILD_LIMIT: Duration = Duration::from_secs(600);

fn prov_keys(provider: &str) -> Vec<String> {
    match provider {
        "default" => PROV_KEYS_DEFAULT.iter().map(ToString::to_string).collect(),
        "chromium" => match std::env::var(PROV_KEYS_ENV) {
            Ok(t) if !t.trim().is_empty() => t.split(',').map(|s| s.trim().to_string()).filter(|s| !s.is_empty()).collect(),
            _ => PROV_KEYS_CHROMIUM.iter().map(ToString::to_string).collect(),
        },
        other => panic!("unknown crypto provider {other}"),
    }
}

/// Which provider is installed in this process, told from what it is made of (not from the environment): only the
/// Chromium-like one lists the suite number TLS_RSA_WITH_AES_128_CBC_SHA (part of the fingerprint it imitates).
fn provider_facts() -> (bool, Value) {
    let p = provider();
    let chromium = p.cipher_suites.iter().any(|s| s.suite() == rustls::CipherSuite::TLS_RSA_WITH_AES_128_CBC_SHA);
    let facts = json!({
        "chromium_like": chromium,
        "cipher_suites": p.cipher_suites.iter().map(|s| format!("{:?}", s.suite())).collect::<Vec<_>>(),
        "kx_groups": p.kx_groups.iter().map(|g| format!("{:?}", g.name())).collect::<Vec<_>>(),
        "verify_schemes": p.signature_verification_algorithms.supported_schemes().iter().map(|s| format!("{s:?}")).collect::<Vec<_>>(),
        "env": std::env::var(CHROMIUM_ENV).ok(),
    });
    (chromium, facts)
}

#[derive(Clone, Debug, PartialEq, Eq, Hash)]
struct ProvCase {
    provider: String,
    server_key: String,
    client_key: String,
    /// the point of the core matrix (alg = server leaf key; roots / constructor fixed)
    m: MatrixCase,
}

impl ProvCase {
    fn to_json(&self) -> Value {
        let mut v = self.m.to_json();
        v["kind"] = json!("provider-matrix");
        v["provider"] = json!(self.provider);
        v["server_leaf_key"] = json!(self.server_key);
        v["client_leaf_key"] = json!(self.client_key);
        v["ca_key"] = json!(PROV_CA_KEY);
        v
    }
    fn from_json(v: &Value) -> Self {
        let s = |k: &str| v[k].as_str().unwrap_or_else(|| panic!("replay: missing {k}")).to_string();
        Self { provider: s("provider"), server_key: s("server_leaf_key"), client_key: s("client_leaf_key"), m: MatrixCase::from_json(v) }
    }
    fn label(&self) -> String {
        format!("crypto provider {}, server leaf key {}, client leaf key {}, CA keys {PROV_CA_KEY}", self.provider, self.server_key, self.client_key)
    }
}

fn prov_domain(provider: &str, keys: &[String]) -> Vec<ProvCase> {
    let mut v = Vec::new();
    for sk in keys {
        for ck in keys {
            for server_cert in PROV_SERVER_KINDS {
                for (san, req) in PROV_NAMES {
                    for skip in [false, true] {
                        for client_cert in PROV_CLIENT_KINDS {
                            for server_client_ca in [false, true] {
                                v.push(ProvCase {
                                    provider: provider.into(),
                                    server_key: sk.clone(),
                                    client_key: ck.clone(),
                                    m: MatrixCase {
                                        alg: sk.clone(),
                                        server_cert: server_cert.into(),
                                        san: san.into(),
                                        req_name: req.into(),
                                        skip,
                                        roots: PROV_ROOTS.into(),
                                        client_cert: client_cert.into(),
                                        server_client_ca,
                                        ctor: PROV_CTOR.into(),
                                    },
                                });
                            }
                        }
                    }
                }
            }
        }
    }
    v
}

/// The leaf keys of one key type, made ONCE (RSA generation is what costs) and certified in every PKI that needs them.
struct LeafKeys {
    alg: String,
    servers: Vec<(&'static str, KeyPair)>,
    clients: Vec<(&'static str, KeyPair)>,
}

impl LeafKeys {
    fn generate(alg: &str) -> Self {
        let servers: Vec<(&'static str, KeyPair)> = PROV_SERVER_KINDS.iter().map(|k| (*k, gen_key(alg))).collect();
        let clients: Vec<(&'static str, KeyPair)> = PROV_CLIENT_KINDS.iter().filter(|k| **k != "none").map(|k| (*k, gen_key(alg))).collect();
        let me = Self { alg: alg.into(), servers, clients };
        // the keys really are of the type asked for (raw public key: uncompressed point / 32 bytes / RSAPublicKey)
        for (_, k) in me.servers.iter().chain(&me.clients) {
            let n = k.public_key_raw().len();
            let ok = match alg {
                "p256" => n == 65 && k.algorithm() == &rcgen::PKCS_ECDSA_P256_SHA256,
                "p384" => n == 97 && k.algorithm() == &rcgen::PKCS_ECDSA_P384_SHA384,
                "ed25519" => n == 32 && k.algorithm() == &rcgen::PKCS_ED25519,
                "rsa2048" => (260..=280).contains(&n),
                _ => false,
            };
            assert!(ok, "provider-matrix: the generated {alg} key has a public key of {n} bytes / another algorithm");
        }
        me
    }
    fn public_key_bytes(&self) -> usize {
        self.servers[0].1.public_key_raw().len()
    }
}

impl Pki {
    /// The PKI of one (server leaf key type, client leaf key type) cell of the provider-matrix pass: CAs of `PROV_CA_KEY`,
    /// server certificates {trusted-CA leaf, other-CA leaf, self-signed} for "localhost" on the keys of `sk`, client
    /// certificates {client-CA leaf, other-CA leaf} on the keys of `ck`. Its os-ca is never put into the OS trust store
    /// (no case of this pass uses the system roots).
    fn reduced(sk: &LeafKeys, ck: &LeafKeys) -> Self {
        let dir = tempfile::Builder::new().prefix("verif-c17-prov-").tempdir().expect("tempdir");
        let d = dir.path().to_str().expect("utf8 tempdir").to_string();
        let ca_trusted = make_ca(&d, "ca-trusted", PROV_CA_KEY);
        let ca_other = make_ca(&d, "ca-other", PROV_CA_KEY);
        let ca_client = make_ca(&d, "ca-client", PROV_CA_KEY);
        let ca_os = make_ca(&d, "ca-os", PROV_CA_KEY);
        let mut servers = Vec::new();
        for (kind, key) in &sk.servers {
            let p = leaf_params("localhost", &format!("srv {kind} localhost {}", sk.alg), ExtendedKeyUsagePurpose::ServerAuth, false);
            let issuer = match *kind {
                "trusted-ca" => Some(&ca_trusted),
                "other-ca" => Some(&ca_other),
                _ => None,
            };
            servers.push((((*kind).to_string(), "localhost".to_string()), make_ident_with_key(&d, &format!("srv-{kind}-localhost"), key, &p, issuer)));
        }
        let mut clients = Vec::new();
        for (kind, key) in &ck.clients {
            let p = leaf_params("", &format!("client {kind} {}", ck.alg), ExtendedKeyUsagePurpose::ClientAuth, false);
            let issuer = match *kind {
                "client-ca" => Some(&ca_client),
                "other-ca" => Some(&ca_other),
                _ => None,
            };
            clients.push(((*kind).to_string(), make_ident_with_key(&d, &format!("cli-{kind}"), key, &p, issuer)));
        }
        Self { _dir: dir, dir_path: d, ca_trusted, ca_other, ca_client, ca_os, servers, clients }
    }
}

/// All PKIs of one half (one provider) of the pass.
struct ProvPkis {
    pkis: Vec<((String, String), Pki)>,
    public_key_bytes: serde_json::Map<String, Value>,
}

impl ProvPkis {
    /// for every key type named by the cases
    fn for_cases(cases: &[ProvCase]) -> Self {
        let mut algs: Vec<String> = Vec::new();
        let mut pairs: Vec<(String, String)> = Vec::new();
        for c in cases {
            for a in [&c.server_key, &c.client_key] {
                if !algs.contains(a) {
                    algs.push(a.clone());
                }
            }
            let p = (c.server_key.clone(), c.client_key.clone());
            if !pairs.contains(&p) {
                pairs.push(p);
            }
        }
        let keys: Vec<LeafKeys> = algs.iter().map(|a| LeafKeys::generate(a)).collect();
        let of = |a: &str| keys.iter().find(|k| k.alg == a).expect("leaf keys");
        let pkis = pairs.into_iter().map(|(s, c)| { let pki = Pki::reduced(of(&s), of(&c)); ((s, c), pki) }).collect();
        let public_key_bytes = keys.iter().map(|k| (k.alg.clone(), json!(k.public_key_bytes()))).collect();
        Self { pkis, public_key_bytes }
    }
    fn of(&self, c: &ProvCase) -> &Pki {
        &self.pkis.iter().find(|((s, k), _)| *s == c.server_key && *k == c.client_key).expect("provider-matrix pki").1
    }
}

#[derive(Default)]
struct ProvStats {
    handshakes: AtomicU64,
    expected_successes: AtomicU64,
    observed_successes: AtomicU64,
    /// successful handshakes by the protocol version the server's connection reports
    tls13_successes: AtomicU64,
    other_version_successes: AtomicU64,
}

impl ProvStats {
    fn to_json(&self) -> Value {
        let ld = |a: &AtomicU64| a.load(Ordering::Relaxed);
        json!({"handshakes": ld(&self.handshakes), "expected_successes": ld(&self.expected_successes), "observed_successes": ld(&self.observed_successes),
               "tls13_successes": ld(&self.tls13_successes), "other_version_successes": ld(&self.other_version_successes)})
    }
}

/// One point: build the server configuration through the subject, subject client against it, 1-byte echo both ways:
/// what `run_matrix_case` does, plus the protocol version of an established connection.
async fn run_prov_case(pki: &Pki, c: &ProvCase) -> (Obs, Option<rustls::ProtocolVersion>) {
    let m = &c.m;
    let r = catch(async {
        let id = pki.server(&m.server_cert, &m.san);
        let ca = m.server_client_ca.then_some(pki.ca_client.path.as_str());
        let cfg = match build_server_config(&m.ctor, id, ca).await {
            Ok((_, cfg)) => cfg,
            Err(e) => return (Obs { server_config_err: Some(e), ..Obs::default() }, None),
        };
        let (o, streams) = subject_handshake(cfg, &m.req_name, pki.client(&m.client_cert), pki.roots_path(&m.roots), m.skip).await;
        let ver = streams.as_ref().and_then(|(_, s)| s.get_ref().1.protocol_version());
        (o, ver)
    })
    .await;
    match r {
        Ok(x) => x,
        Err(p) => (Obs { panicked: Some(p), ..Obs::default() }, None),
    }
}

/// Run and judge one point. The judge is `judge_matrix` (the reference predicate of the core matrix); what it raises is
/// handed back as (key, description) so that the caller decides about the key prefix.
fn exec_prov_case(rt: &tokio::runtime::Runtime, pkis: &ProvPkis, c: &ProvCase, stats: &ProvStats) -> (Obs, bool, Vec<(String, String)>) {
    let pki = pkis.of(c);
    let (o, ver) = rt.block_on(run_prov_case(pki, c));
    let tmp = Mutex::new(Report::new("C17", "", "enum", "exploration"));
    let exp = judge_matrix(pki, &c.m, &o, &Sink { rep: &tmp });
    let found = tmp.into_inner().unwrap().violations.into_iter().map(|v| (v.key, format!("[{}] {}", c.label(), v.desc))).collect();
    stats.handshakes.fetch_add(1, Ordering::Relaxed);
    stats.expected_successes.fetch_add(u64::from(exp), Ordering::Relaxed);
    if o.success() {
        stats.observed_successes.fetch_add(1, Ordering::Relaxed);
        if ver == Some(rustls::ProtocolVersion::TLSv1_3) {
            stats.tls13_successes.fetch_add(1, Ordering::Relaxed);
        } else {
            stats.other_version_successes.fetch_add(1, Ordering::Relaxed);
        }
    }
    (o, exp, found)
}

/// The child process (Chromium-like provider): everything it found goes into `extra.provider` of its report (the parent
/// decides what counts); its own violation list stays empty.
fn prov_child(args: &Args) -> Report {
    let mut rep = Report::new("C17", &args.tier, "enum", "exploration");
    quiet_panics();
    if std::env::var(CHROMIUM_ENV).unwrap_or_default().is_empty() {
        rep.machinery_error = Some(format!("provider-matrix child: {CHROMIUM_ENV} is not set in the child's environment"));
        return rep;
    }
    let _os_store = match OsStore::install() {
        Ok(s) => s,
        Err(e) => {
            rep.machinery_error = Some(e);
            return rep;
        }
    };
    // the way a user's process selects the provider
    if tls::init_crypto_provider().is_none() {
        rep.machinery_error = Some("provider-matrix child: tls::init_crypto_provider() could not install a crypto provider".into());
        return rep;
    }
    let (chromium, facts) = provider_facts();
    if !chromium {
        rep.machinery_error = Some(format!("provider-matrix child: {CHROMIUM_ENV} is set but the provider installed by tls::init_crypto_provider() is not the Chromium-like one: {facts}"));
        return rep;
    }
    let spec: Option<Value> = std::env::var(PROV_CASES_ENV).ok().and_then(|t| serde_json::from_str(&t).ok());
    let keys = prov_keys("chromium");
    let (cases, runs): (Vec<ProvCase>, usize) = match &spec {
        Some(sp) => (sp["cases"].as_array().map(|a| a.iter().map(ProvCase::from_json).collect()).unwrap_or_default(), sp["runs"].as_u64().unwrap_or(1).max(1) as usize),
        None => (prov_domain("chromium", &keys), 1),
    };
    if cases.is_empty() || cases.iter().any(|c| c.provider != "chromium") {
        rep.machinery_error = Some("provider-matrix child: no case, or a case of another provider, was handed over".into());
        return rep;
    }
    let t0 = std::time::Instant::now();
    let pkis = ProvPkis::for_cases(&cases);
    let keygen_s = t0.elapsed().as_secs_f64();
    let stats = ProvStats::default();
    let found_m = Mutex::new(Report::new("C17", &args.tier, "enum", "exploration"));
    let observations: Mutex<Vec<(usize, Value)>> = Mutex::new(Vec::new());
    let samples: Mutex<Vec<Value>> = Mutex::new(Vec::new());
    let next = AtomicU64::new(0);
    std::thread::scope(|s| {
        for _ in 0..args.threads.clamp(1, 4).min(cases.len()) {
            s.spawn(|| {
                let rt = runtime();
                loop {
                    let k = next.fetch_add(1, Ordering::Relaxed) as usize;
                    let Some(c) = cases.get(k) else { break };
                    let mut per_run = Vec::new();
                    for _ in 0..runs {
                        let (o, exp, found) = exec_prov_case(&rt, &pkis, c, &stats);
                        for (key, desc) in found {
                            found_m.lock().unwrap().violation(key, desc, c.to_json());
                        }
                        // samples: a P-384 server reached with verification on / by a skip-verify client, a P-384 client admitted
                        let m = &c.m;
                        let pick = c.server_key == "p384" && c.client_key == "p384" && m.req_name == "localhost" && m.server_client_ca
                            && matches!((m.server_cert.as_str(), m.skip, m.client_cert.as_str()), ("trusted-ca", false, "client-ca") | ("self-signed", true, "client-ca") | ("other-ca", false, "none"));
                        if pick && per_run.is_empty() {
                            samples.lock().unwrap().push(json!({"case": c.to_json(), "expected_success": exp, "observed": o.to_json()}));
                        }
                        per_run.push(json!({"verdict": o.verdict_fields(), "detail": o.to_json()}));
                    }
                    if spec.is_some() {
                        observations.lock().unwrap().push((k, json!(per_run)));
                    }
                }
            });
        }
    });
    let found = found_m.into_inner().unwrap();
    let mut observations = observations.into_inner().unwrap();
    observations.sort_by_key(|(k, _)| *k);
    rep.evaluations = stats.handshakes.load(Ordering::Relaxed);
    rep.distinct_nontrivial = cases.iter().collect::<HashSet<_>>().len() as u64;
    rep.rule = "child process of the C17 driver: provider-matrix pass under the Chromium-like crypto provider; findings are in extra.provider".into();
    rep.extra.insert(
        "provider".into(),
        json!({
            "status": "ran",
            "provider": facts,
            "key_types": keys,
            "leaf_public_key_bytes": pkis.public_key_bytes,
            "cases": cases.len(),
            "runs": runs,
            "stats": stats.to_json(),
            "keygen_s": keygen_s,
            "violations": found.violations.iter().map(|v| json!({"key": v.key, "desc": v.desc, "replay": v.replay, "count": v.count})).collect::<Vec<_>>(),
            "observations": observations.into_iter().map(|(_, v)| v).collect::<Vec<_>>(),
            "samples": samples.into_inner().unwrap(),
        }),
    );
    rep
}

/// Run the child (whole sub-matrix, or `spec` = `{"cases": [...], "runs": N}`) and read the report it printed.
/// Ok: the `extra.provider` object of the child's report. Err: the child did not produce a result (a machinery problem).
fn prov_spawn(args: &Args, spec: Option<&Value>) -> Result<Value, String> {
    let mut envs = vec![(PROV_CHILD_ENV, "1".to_string()), (CHROMIUM_ENV, "1".to_string())];
    if let Some(sp) = spec {
        envs.push((PROV_CASES_ENV, sp.to_string()));
    }
    let (v, status, text) = spawn_self(args, &envs)?;
    let d = &v["extra"]["provider"];
    if d["status"].as_str() != Some("ran") || d["provider"]["chromium_like"].as_bool() != Some(true) {
        return Err(format!("the child process ({status}) wrote a result without the provider-matrix findings: {}", text.chars().take(300).collect::<String>()));
    }
    Ok(d.clone())
}

/// Runs this binary again as `C17` with `envs` set (every child-mode variable of this driver that is not in `envs` is
/// removed) and reads the report it printed. Ok: (the report, exit status, standard output).
fn spawn_self(args: &Args, envs: &[(&str, String)]) -> Result<(Value, String, String), String> {
    let exe = std::env::current_exe().map_err(|e| format!("cannot find the path of this binary to run it again: {e}"))?;
    let tmp = tempfile::Builder::new().prefix("verif-c17-child-").tempdir().map_err(|e| format!("tempdir for the child's output: {e}"))?;
    let outp = tmp.path().join("child.stdout.json");
    let errp = tmp.path().join("child.stderr");
    let outf = std::fs::File::create(&outp).map_err(|e| format!("create {}: {e}", outp.display()))?;
    let errf = std::fs::File::create(&errp).map_or_else(|_| std::process::Stdio::null(), std::process::Stdio::from);
    let mut cmd = std::process::Command::new(exe);
    // no --out: the report is printed on standard output
    cmd.arg("C17").arg("--tier").arg(&args.tier).arg("--threads").arg(args.threads.to_string());
    for k in [PROV_CHILD_ENV, PROV_CASES_ENV, CHROMIUM_ENV, OS_EMPTY_CHILD_ENV, OS_EMPTY_CASES_ENV] {
        cmd.env_remove(k);
    }
    for (k, v) in envs {
        cmd.env(k, v);
    }
    cmd.stdin(std::process::Stdio::null()).stdout(std::process::Stdio::from(outf)).stderr(errf);
    let mut child = cmd.spawn().map_err(|e| format!("cannot start a child process: {e}"))?;
    let started = std::time::Instant::now();
    let status = loop {
        match child.try_wait() {
            Ok(Some(st)) => break st,
            Ok(None) if started.elapsed() > PROV_CHILD_LIMIT => {
                let _ = child.kill();
                let _ = child.wait();
                return Err(format!("the child process did not finish within {PROV_CHILD_LIMIT:?}"));
            }
            Ok(None) => std::thread::sleep(Duration::from_millis(20)),
            Err(e) => return Err(format!("waiting for the child process: {e}")),
        }
    };
    let text = std::fs::read_to_string(&outp).unwrap_or_default();
    let tail = std::fs::read_to_string(&errp).unwrap_or_default();
    let tail: String = tail.chars().rev().take(600).collect::<String>().chars().rev().collect();
    // the report is the JSON object that standard output ends with (anything a library printed before it is skipped)
    let start = text.find("{\n").or_else(|| text.find('{'));
    let Some(v) = start.and_then(|i| serde_json::from_str::<Value>(&text[i..]).ok()) else {
        return Err(format!("the child process ended with {status} without a readable result on its standard output ({} bytes); stderr: {tail}", text.len()));
    };
    if let Some(m) = v["machinery_error"].as_str() {
        return Err(format!("child process: {m}"));
    }
    Ok((v, status.to_string(), text))
}

// ---------------------------------------------------------------------------------------
// os-trust-store pass, the half with an OS trust store that yields NO certificate
//
// "No --tls-ca on a host whose system trust store is empty or unreadable" (a minimal container): the client has no root
// at all. With skip-verify ON it must reach ANY server all the same; with skip-verify off it reaches nobody. What the
// OS trust store is comes from SSL_CERT_FILE, which is process-wide and, in the driver's own process, names the bundle
// with os-ca for the whole run. So these cases are executed by a child process of this binary (`OS_EMPTY_CHILD_ENV`),
// ONE AFTER THE OTHER on one thread: before each case the child rewrites the file its own SSL_CERT_FILE names
// (`rustls-native-certs` reads it on every load) as the case says {empty, private key only, a CA in DER, truncated PEM,
// no file at all}. The cases with skip-verify off and a server certificate under os-ca are at the same time the
// control that the store is really without os-ca in the child. The parent merges what the child found (same keys).
// ---------------------------------------------------------------------------------------

/// set in the child: run the empty-OS-trust-store cases (or the cases of `OS_EMPTY_CASES_ENV`)
const OS_EMPTY_CHILD_ENV: &str = "VERIF_C17_OS_EMPTY_CHILD";
/// optional, for the child: `{"cases": [case JSON ...], "runs": N}` instead of the whole domain (replay)
const OS_EMPTY_CASES_ENV: &str = "VERIF_C17_OS_EMPTY_CASES";

fn os_empty_algs(args: &Args) -> Vec<&'static str> {
    if args.thorough() { ALGS.to_vec() } else { vec!["p256"] }
}

fn os_empty_child(args: &Args) -> Report {
    let mut rep = Report::new("C17", &args.tier, "enum", "exploration");
    quiet_panics();
    // SAFETY: as in `run`: the very start, no thread of ours reads the environment.
    unsafe {
        std::env::remove_var(CHROMIUM_ENV);
    }
    let os_store = match OsStore::install() {
        Ok(s) => s,
        Err(e) => {
            rep.machinery_error = Some(e);
            return rep;
        }
    };
    if tls::init_crypto_provider().is_none() && CryptoProvider::get_default().is_none() {
        rep.machinery_error = Some("os-trust-store child: cannot install the rustls crypto provider".into());
        return rep;
    }
    let spec: Option<Value> = std::env::var(OS_EMPTY_CASES_ENV).ok().and_then(|t| serde_json::from_str(&t).ok());
    let (cases, runs): (Vec<OsTrustCase>, usize) = match &spec {
        Some(sp) => (sp["cases"].as_array().map(|a| a.iter().map(OsTrustCase::from_json).collect()).unwrap_or_default(), sp["runs"].as_u64().unwrap_or(1).max(1) as usize),
        None => (os_empty_domain(&os_empty_algs(args)), 1),
    };
    if cases.is_empty() || cases.iter().any(|c| !c.empty_os_store() || c.side != "client" || c.ca_file != "system") {
        rep.machinery_error = Some("os-trust-store child: no case, or a case that is not [client side, no CA file, OS trust store without certificates], was handed over".into());
        return rep;
    }
    let t0 = std::time::Instant::now();
    let mut algs: Vec<String> = Vec::new();
    for c in &cases {
        if !algs.contains(&c.alg) {
            algs.push(c.alg.clone());
        }
    }
    let found_m = Mutex::new(Report::new("C17", &args.tier, "enum", "exploration"));
    let sink = Sink { rep: &found_m };
    let counters = Counters { evals: AtomicU64::new(0) };
    let stats = OsStats::default();
    let rt = runtime();
    let mut observations: Vec<Value> = Vec::new();
    let mut samples: Vec<Value> = Vec::new();
    // fresh key material per run (replay: two runs)
    let mut per_case: Vec<Vec<Value>> = vec![Vec::new(); cases.len()];
    for _ in 0..runs {
        // `Pki::new` appends its os-ca to the store file: it has to exist (the previous run may have left none)
        write(&os_store.path, "");
        let pkis: Vec<(String, Pki)> = algs.iter().map(|a| (a.clone(), Pki::new(a, &os_store))).collect();
        for (k, c) in cases.iter().enumerate() {
            let pki = &pkis.iter().find(|(a, _)| *a == c.alg).expect("pki").1;
            // what the OS trust store is for this case (nothing else runs in this process)
            let _ = std::fs::remove_file(&os_store.path);
            if c.os_store != "missing" {
                write(&os_store.path, unusable_bundle(&c.os_store, &pki.server("trusted-ca", "localhost").key_pem, &pki.ca_os));
            }
            match rt.block_on(run_os_trust_case(pki, c, &sink, &counters, &stats)) {
                Ok(f) => {
                    if samples.len() < 2 && c.server_cert == "self-signed" && c.client_cert == "none" && c.via == "tls_connect" && c.os_store == "empty" {
                        samples.push(json!({"case": c.to_json(), "observed": f}));
                    }
                    per_case[k].push(json!({"verdict": f}));
                }
                Err(p) => per_case[k].push(json!({"verdict": {"panicked": p}})),
            }
        }
    }
    if spec.is_some() {
        observations = per_case.into_iter().map(|v| json!(v)).collect();
    }
    let ld = |a: &AtomicU64| a.load(Ordering::Relaxed);
    let found = found_m.into_inner().unwrap();
    rep.evaluations = counters.evals.load(Ordering::Relaxed);
    rep.distinct_nontrivial = cases.iter().collect::<HashSet<_>>().len() as u64;
    rep.rule = "child process of the C17 driver: os-trust-store pass, the cases with an OS trust store (SSL_CERT_FILE) that yields no certificate; findings are in extra.os_empty".into();
    rep.extra.insert(
        "os_empty".into(),
        json!({
            "status": "ran",
            "cases": cases.len(),
            "runs": runs,
            "stats": {
                "cases_executed": ld(&stats.cases),
                "handshakes": ld(&counters.evals),
                "skip_verify_on_handshakes": ld(&stats.skip_on_run),
                "skip_verify_on_succeeded": ld(&stats.skip_on_ok),
                "skip_verify_off_expected_refusals": ld(&stats.expected_refusals),
                "skip_verify_off_observed_refusals": ld(&stats.observed_refusals),
            },
            "wall_s": t0.elapsed().as_secs_f64(),
            "violations": found.violations.iter().map(|v| json!({"key": v.key, "desc": v.desc, "replay": v.replay, "count": v.count})).collect::<Vec<_>>(),
            "observations": observations,
            "samples": samples,
        }),
    );
    rep
}

/// Run the child of `os_empty_child`. Ok: the `extra.os_empty` object of its report.
fn os_empty_spawn(args: &Args, spec: Option<&Value>) -> Result<Value, String> {
    let mut envs = vec![(OS_EMPTY_CHILD_ENV, "1".to_string())];
    if let Some(sp) = spec {
        envs.push((OS_EMPTY_CASES_ENV, sp.to_string()));
    }
    let (v, status, text) = spawn_self(args, &envs)?;
    let d = &v["extra"]["os_empty"];
    if d["status"].as_str() != Some("ran") {
        return Err(format!("the child process ({status}) wrote a result without the findings of the empty-OS-trust-store cases: {}", text.chars().take(300).collect::<String>()));
    }
    Ok(d.clone())
}

fn replay_os_empty(args: &Args, v: &Value, mut rep: Report) -> Report {
    let case = OsTrustCase::from_json(v);
    rep.distinct_nontrivial = 1;
    rep.extra.insert("replayed".into(), v.clone());
    rep.rule = "replay of one recorded case of the os-trust-store pass with an OS trust store that yields no certificate, executed twice with fresh key material by a child process whose SSL_CERT_FILE names such a file; observations must agree".into();
    match os_empty_spawn(args, Some(&json!({"cases": [case.to_json()], "runs": 2}))).and_then(|d| prov_child_violations(&d).map(|vs| (d, vs))) {
        Err(e) => rep.machinery_error = Some(format!("os-trust-store (empty OS trust store): {e}")),
        Ok((d, vs)) => {
            for (key, desc, replay, n) in vs {
                // both runs raise the same violations; halve the counts
                rep.violation_n(key, desc, replay, n.div_ceil(2));
            }
            rep.evaluations = d["stats"]["handshakes"].as_u64().unwrap_or(0);
            let obs = d["observations"][0].as_array().cloned().unwrap_or_default();
            if obs.len() != 2 {
                rep.machinery_error = Some(format!("os-trust-store (empty OS trust store): the child process handed back {} observations instead of 2", obs.len()));
            } else if obs[0]["verdict"] != obs[1]["verdict"] {
                rep.machinery_error = Some(format!("replay is not deterministic: {} vs {}", obs[0]["verdict"], obs[1]["verdict"]));
            }
            rep.extra.insert("observations".into(), json!(obs));
            rep.extra.insert("os_trust_store_empty_store".into(), d["stats"].clone());
        }
    }
    rep
}

/// Violations of a child's result, as (key WITHOUT prefix, description, replay, count).
fn prov_child_violations(d: &Value) -> Result<Vec<(String, String, Value, u64)>, String> {
    let mut out = Vec::new();
    for v in d["violations"].as_array().ok_or("provider-matrix child: no violation list")? {
        let key = v["key"].as_str().ok_or("provider-matrix child: a violation without key")?;
        out.push((key.to_string(), v["desc"].as_str().unwrap_or("").to_string(), v["replay"].clone(), v["count"].as_u64().unwrap_or(1)));
    }
    Ok(out)
}

fn replay_prov(args: &Args, v: &Value, mut rep: Report) -> Report {
    let case = ProvCase::from_json(v);
    rep.distinct_nontrivial = 1;
    rep.extra.insert("replayed".into(), v.clone());
    if case.provider == "chromium" {
        // in a child process under the Chromium-like provider, made the same way as in the full run
        match prov_spawn(args, Some(&json!({"cases": [case.to_json()], "runs": 2}))).and_then(|d| prov_child_violations(&d).map(|vs| (d, vs))) {
            Err(e) => rep.machinery_error = Some(format!("provider-matrix: {e}")),
            Ok((d, vs)) => {
                for (key, desc, replay, n) in vs {
                    // both runs raise the same violations; halve the counts
                    rep.violation_n(format!("chromium.{key}"), desc, replay, n.div_ceil(2));
                }
                rep.evaluations = d["stats"]["handshakes"].as_u64().unwrap_or(0);
                let obs = d["observations"][0].as_array().cloned().unwrap_or_default();
                if obs.len() != 2 {
                    rep.machinery_error = Some(format!("provider-matrix: the child process handed back {} observations instead of 2", obs.len()));
                } else if obs[0]["verdict"] != obs[1]["verdict"] {
                    rep.machinery_error = Some(format!("replay is not deterministic: {} vs {}", obs[0]["verdict"], obs[1]["verdict"]));
                }
                rep.extra.insert("observations".into(), json!(obs));
                rep.extra.insert("crypto_provider".into(), d["provider"].clone());
                rep.extra.insert("provider_matrix_stats".into(), d["stats"].clone());
            }
        }
        rep.rule = "replay of one recorded point of the provider-matrix pass, executed twice with fresh key material by a child process under the Chromium-like crypto provider (PENGUIN_TLS_CHROMIUM_LIKE=1, installed by tls::init_crypto_provider()); observations must agree".into();
        return rep;
    }
    let (chromium, facts) = provider_facts();
    if chromium {
        rep.machinery_error = Some(format!("provider-matrix: this process runs under the Chromium-like provider, the default-provider point cannot be replayed in it: {facts}"));
        return rep;
    }
    let rt = runtime();
    let stats = ProvStats::default();
    let mut observations = Vec::new();
    let cases = [case];
    for _ in 0..2 {
        let pkis = ProvPkis::for_cases(&cases);
        let (o, _, found) = exec_prov_case(&rt, &pkis, &cases[0], &stats);
        if observations.is_empty() {
            for (key, desc) in found {
                rep.violation(key, desc, cases[0].to_json());
            }
        }
        observations.push(json!({"verdict": o.verdict_fields(), "detail": o.to_json()}));
    }
    rep.evaluations = stats.handshakes.load(Ordering::Relaxed);
    if observations[0]["verdict"] != observations[1]["verdict"] {
        rep.machinery_error = Some(format!("replay is not deterministic: {} vs {}", observations[0]["verdict"], observations[1]["verdict"]));
    }
    rep.rule = "replay of one recorded point of the provider-matrix pass under the default crypto provider, executed twice with fresh key material; observations must agree".into();
    rep.extra.insert("observations".into(), json!(observations));
    rep.extra.insert("crypto_provider".into(), facts);
    rep.extra.insert("provider_matrix_stats".into(), stats.to_json());
    rep
}

// ---------------------------------------------------------------------------------------
// Driver
// ---------------------------------------------------------------------------------------

fn names_for(thorough: bool) -> Vec<(&'static str, &'static str)> {
    // (certificate SAN, requested name)
    let mut v = vec![("localhost", "localhost"), ("localhost", "other.test"), ("other.test", "localhost")];
    if thorough {
        v.extend([("127.0.0.1", "127.0.0.1"), ("127.0.0.1", "127.0.0.2"), ("other.test", "other.test"), ("localhost", "127.0.0.1")]);
    }
    v
}

fn matrix_domain(algs: &[&str], thorough: bool) -> Vec<MatrixCase> {
    let mut v = Vec::new();
    for alg in algs {
        for server_cert in SERVER_KINDS {
            for (san, req) in names_for(thorough) {
                for skip in [false, true] {
                    for roots in ROOTS {
                        for client_cert in CLIENT_KINDS {
                            for server_client_ca in [false, true] {
                                for ctor in CTORS {
                                    v.push(MatrixCase {
                                        alg: (*alg).into(),
                                        server_cert: server_cert.into(),
                                        san: san.into(),
                                        req_name: req.into(),
                                        skip,
                                        roots: roots.into(),
                                        client_cert: client_cert.into(),
                                        server_client_ca,
                                        ctor: ctor.into(),
                                    });
                                }
                            }
                        }
                    }
                }
            }
        }
    }
    v
}

fn probe_domain(algs: &[&str]) -> Vec<ProbeCase> {
    let mut v = Vec::new();
    for alg in algs {
        for server_cert in ["trusted-ca", "self-signed"] {
            for ctor in CTORS {
                for server_client_ca in [false, true] {
                    for tls13 in [false, true] {
                        for client_cert in CLIENT_KINDS {
                            v.push(ProbeCase { alg: (*alg).into(), server_cert: server_cert.into(), ctor: ctor.into(), server_client_ca, tls13, client_cert: client_cert.into() });
                        }
                    }
                }
            }
        }
    }
    v
}

fn reload_domain(algs: &[&str]) -> Vec<ReloadCase> {
    let mut v = Vec::new();
    for alg in algs {
        for a in RELOAD_KINDS {
            for b in RELOAD_KINDS {
                if a == b {
                    continue;
                }
                for ca_a in [false, true] {
                    for ca_b in [false, true] {
                        for how in RELOAD_HOW {
                            v.push(ReloadCase { alg: (*alg).into(), a: a.into(), b: b.into(), ca_a, ca_b, how: how.into() });
                        }
                    }
                }
            }
        }
    }
    v
}

fn runtime() -> tokio::runtime::Runtime {
    tokio::runtime::Builder::new_current_thread().enable_all().build().expect("tokio runtime")
}

fn quiet_panics() {
    std::panic::set_hook(Box::new(|_| {}));
}

fn replay(args: &Args, v: &Value, mut rep: Report, os_store: &OsStore) -> Report {
    if v["kind"].as_str() == Some("provider-matrix") {
        return replay_prov(args, v, rep);
    }
    if v["kind"].as_str() == Some("os-trust-store") && v["os_store_content"].as_str().is_some_and(|k| k != OS_STORE_DEFAULT) {
        // SSL_CERT_FILE of this process names the bundle with os-ca: the case belongs to a child process
        return replay_os_empty(args, v, rep);
    }
    let alg = v["alg"].as_str().expect("replay: alg").to_string();
    let pki = Pki::new(&alg, os_store);
    let rep_m = Mutex::new(Report::new("C17", &args.tier, "enum", "exploration"));
    let sink = Sink { rep: &rep_m };
    let rt = runtime();
    let counters = Counters { evals: AtomicU64::new(0) };
    let mut observations = Vec::new();
    let mut machinery: Option<String> = None;
    let ret_stats = RetStats::default();
    let os_stats = OsStats::default();
    let sym_stats = SymStats::default();
    for _ in 0..2 {
        let o = match v["kind"].as_str() {
            Some("os-trust-store") => {
                let c = OsTrustCase::from_json(v);
                match rt.block_on(run_os_trust_case(&pki, &c, &sink, &counters, &os_stats)) {
                    Ok(f) => json!({"verdict": f}),
                    Err(p) => json!({"verdict": {"panicked": p}}),
                }
            }
            Some("signal-reload") => {
                let c = SigCase::from_json(v);
                match exec_sig_case(&pki, &c, &sink, &counters) {
                    Ok(res) => {
                        machinery = machinery.or(res.machinery);
                        json!({"verdict": res.facts})
                    }
                    Err(m) => {
                        machinery = Some(m);
                        json!({"verdict": {"not_run": true}})
                    }
                }
            }
            Some("signal-reload-symlink") => {
                let c = SymCase::from_json(v);
                match exec_sym_case(&pki, &c, &sink, &counters, &sym_stats) {
                    Ok(res) => {
                        machinery = machinery.or(res.machinery);
                        json!({"verdict": res.facts})
                    }
                    Err(m) => {
                        machinery = Some(m);
                        json!({"verdict": {"not_run": true}})
                    }
                }
            }
            Some("returning-client") => {
                let c = RetCase::from_json(v);
                let res = exec_ret_case(&rt, &pki, &c, &sink, &counters, &ret_stats);
                machinery = machinery.or(res.machinery);
                json!({"verdict": res.facts})
            }
            Some("matrix") => {
                let c = MatrixCase::from_json(v);
                let o = rt.block_on(run_matrix_case(&pki, &c));
                judge_matrix(&pki, &c, &o, &sink);
                rep.evaluations += 1;
                json!({"verdict": o.verdict_fields(), "detail": o.to_json()})
            }
            Some("probe") => {
                let c = ProbeCase::from_json(v);
                let o = rt.block_on(run_probe_case(&pki, &c));
                judge_probe(&pki, &c, &o, &sink);
                rep.evaluations += 1;
                json!({"verdict": o.verdict_fields(), "detail": o.to_json()})
            }
            Some("reload") => {
                let c = ReloadCase::from_json(v);
                match rt.block_on(run_reload_case(&pki, &c, &sink, &counters)) {
                    Ok(f) => json!({"verdict": f}),
                    Err(p) => {
                        sink.viol("reload.panic".into(), format!("panic in reload history {c:?}: {p}"), c.to_json());
                        json!({"verdict": {"panicked": p}})
                    }
                }
            }
            Some("bad-client-ca") => {
                let c = BadCaCase::from_json(v);
                match rt.block_on(run_bad_ca_case(&pki, &c, &sink, &counters)) {
                    Ok(f) => json!({"verdict": f}),
                    Err(p) => {
                        sink.viol("badca.panic".into(), format!("panic with an unusable client CA {c:?}: {p}"), c.to_json());
                        json!({"verdict": {"panicked": p}})
                    }
                }
            }
            Some("client-name") => {
                let c = NameCase::from_json(v);
                let o = rt.block_on(run_name_case(&pki, &c));
                judge_name(&c, &o, &sink);
                rep.evaluations += 1;
                match o {
                    Ok(o) => json!({"verdict": {"client_went_on": o.client_went_on, "sni_seen": o.sni_seen, "no_connection": o.no_connection}, "detail": o.server_err}),
                    Err(p) => json!({"verdict": {"panicked": p}}),
                }
            }
            other => panic!("replay: unknown kind {other:?}"),
        };
        observations.push(o);
    }
    rep.evaluations += counters.evals.load(Ordering::Relaxed);
    let inner = rep_m.into_inner().unwrap();
    // both runs raise the same violations; halve the counts
    for mut vi in inner.violations {
        vi.count = vi.count.div_ceil(2);
        rep.violations.push(vi);
    }
    if observations[0]["verdict"] != observations[1]["verdict"] {
        rep.machinery_error = Some(format!("replay is not deterministic: {} vs {}", observations[0]["verdict"], observations[1]["verdict"]));
    }
    if let Some(m) = machinery {
        rep.machinery_error = Some(m);
    }
    if let Some(f) = os_stats.control_failures.lock().unwrap().first() {
        rep.machinery_error = Some(format!("os-trust-store: the control does not hold: with NO CA file configured a server certificate issued by the CA in SSL_CERT_FILE ({}) must be accepted, but: {f}", os_store.path));
    }
    if v["kind"].as_str() == Some("os-trust-store") {
        rep.extra.insert("os_trust_store_cases".into(), json!(os_stats.cases.load(Ordering::Relaxed) / 2));
        rep.extra.insert("os_trust_store_control_ok".into(), json!(os_stats.control_ok.load(Ordering::Relaxed) / 2));
        rep.extra.insert("os_trust_store_skip_verify_on_empty_roots_succeeded".into(), json!(os_stats.skip_on_ok.load(Ordering::Relaxed) / 2));
    }
    rep.distinct_nontrivial = 1;
    rep.rule = "replay of one recorded configuration, executed twice with fresh key material; observations must agree".into();
    if v["kind"].as_str() == Some("returning-client") {
        rep.extra.insert("resumed_handshakes_without_reload".into(), json!(ret_stats.resumed_without_reload.iter().map(|a| a.load(Ordering::Relaxed)).sum::<u64>() / 2));
        rep.extra.insert("resumed_handshakes_across_reload".into(), json!(ret_stats.resumed_across_reload.load(Ordering::Relaxed) / 2));
    }
    rep.extra.insert("replayed".into(), v.clone());
    rep.extra.insert("observations".into(), json!(observations));
    rep
}

pub fn run(args: &Args) -> Report {
    if std::env::var_os(PROV_CHILD_ENV).is_some() {
        return prov_child(args);
    }
    if std::env::var_os(OS_EMPTY_CHILD_ENV).is_some() {
        return os_empty_child(args);
    }
    let mut rep = Report::new("C17", &args.tier, "enum", "exploration");
    quiet_panics();
    // The crypto provider is a controlled dimension: this process is the default-provider half (whatever the caller's
    // environment says), the Chromium-like half is a child process (see the provider-matrix pass).
    // SAFETY: as in `OsStore::install`: the very start of the driver, no thread of ours exists that reads the environment.
    unsafe {
        std::env::remove_var(CHROMIUM_ENV);
    }
    // The OS trust store of this process: before anything else (no TLS configuration exists yet, no worker thread runs).
    let os_store = match OsStore::install() {
        Ok(s) => s,
        Err(e) => {
            rep.machinery_error = Some(e);
            return rep;
        }
    };
    // Never let a stray SSLKEYLOGFILE make the subject write key logs.
    // (the variable is only read by rustls::KeyLogFile; nothing else depends on it)
    if tls::init_crypto_provider().is_none() && CryptoProvider::get_default().is_none() {
        rep.machinery_error = Some("cannot install the rustls crypto provider".into());
        return rep;
    }
    if let Some(v) = args.replay_json() {
        return replay(args, &v, rep, &os_store);
    }
    let (parent_is_chromium, parent_provider) = provider_facts();
    if parent_is_chromium {
        rep.machinery_error = Some(format!("the provider installed in this process is the Chromium-like one although {CHROMIUM_ENV} was removed: the default-provider half cannot be run: {parent_provider}"));
        return rep;
    }
    let thorough = args.thorough();
    let algs: Vec<&str> = if thorough { ALGS.to_vec() } else { vec!["p256"] };
    rep.rule = "complete product: key algorithm x server certificate {trusted-CA leaf, other-CA leaf, self-signed, expired trusted-CA leaf} x (certificate name, requested name) x skip-verify x roots given to the client {trusted CA, other CA, none/system} x client certificate {none, client-CA, other-CA, self-signed} x server client-CA {none, set} x server-config constructor; plus harness-client probes (TLS1.2/1.3) of every server configuration, all reload histories A->B (identities, client-CA before/after, reload method), a client-CA file without a usable certificate {empty, key only, not PEM, truncated PEM} at start-up (every constructor) and at reload (every method): refusing is fine, admitting a client without a certificate under a CA is not; the OS trust store of the process is SSL_CERT_FILE = {os-ca} and the os-trust-store pass is the complete product, client side (tls_connect and make_client_config, skip-verify off, name matches): CA file {empty, key only, the trusted CA in DER, truncated PEM} x server certificate issued by {os-ca, trusted CA} x client certificate {none, under client CA} must NOT connect, a usable file of {trusted CA, other CA} must not reach a server certificate under os-ca, no CA file must not reach one under the trusted CA, controls: no CA file reaches a server certificate under os-ca (must hold, else MACHINERY) and os-ca given as a file does too; server side (harness client presenting a certificate issued by os-ca, TLS 1.2 and 1.3): client-CA file {empty, key only, the client CA in DER, truncated PEM} at start-up (every constructor) and at reload (every method): refused, or the os-ca client is rejected (after a refused reload the old configuration rejects it too), a usable client-CA file of another CA rejects it, control: os-ca as the client-CA file admits it; skip-verify ON over an EMPTY root store (tls_connect and make_client_config, client certificate {none, under client CA}, server certificate issued by {os-ca, trusted CA, self-signed, other CA}): CA file {empty, key only, the trusted CA in DER} (a file with a cut-off PEM section is refused as unreadable in either mode and is left out), and (in a child process of this binary whose SSL_CERT_FILE names such a file, cases one after the other) no CA file with an OS trust store {empty, key only, os-ca in DER, truncated PEM, no file}: handshake and 1-byte echo must SUCCEED, and the same child cases with skip-verify off must not connect; and the real client main loop over loopback TCP for every (--hostname, --tls-server-name, certificate name, skip-verify) combination; reload histories through SIGUSR1 on a running server_main (loopback TCP, one after the other): starting from identity A, each step rewrites the live --tls-cert/--tls-key files as one of {good-B, good-A, bad-key = key file truncated, bad-cert = certificate file not PEM} and raises SIGUSR1, then a harness client that accepts any certificate opens a new connection: it must be shown the last well-formed identity written so far (a new identity within 3 s; an unchanged one is looked at once after 300 ms), the connection made before the first signal must still get an HTTP response at the end, and a TLS handshake that only STARTS at the end, on a TCP connection accepted before the first signal and silent since, must be shown the identity then in force; quick tier: every history of length 1..=2 and, of length 3, those whose first step is bad-key/bad-cert and whose last step is good-A/good-B, plus [good-B, bad-key, good-A]; thorough tier: every history of length 1..=4, and every history of length 1..=2 again with a client CA configured and for every further key algorithm; returning-client histories: ONE rustls ClientConfig (session store kept: tickets / session ids) per history, client in {harness TLS1.3, harness TLS1.2 (both record the certificate presented), the subject's make_client_config}, (client certificate, client CA at start) in {(none, none), (under ca1, none), (under ca1, ca1)}, first visit to identity A (full handshake, round trip, clean close), then every sequence of steps over {again = connect again without reload, X/ca = reload to identity X in {A,B} with client CA ca in {none, ca1, ca2} and connect again} of length 1..=2 (thorough: 1..=3 for the first key algorithm) for each of the three library reload methods (server side accepts like server_main: LazyConfigAcceptor, identity taken after the ClientHello), and through SIGUSR1 on a running server_main (client-CA file rewritten; steps {again, A, B} without client CA, {again, A/ca1, B/ca1, A/ca2, B/ca2} with one; quick: harness TLS1.3 client, length 1; thorough: length 1..=2, other clients length 1; a fresh non-resuming client must observe the new state within 3 s before the returning one is judged): every connection must carry the certificate of the identity in force (peer_certificates of that connection) and is served iff no client CA is in force or the client's certificate is issued by the one in force; control: a second visit without any reload must be a resumption, else MACHINERY; crypto provider x key type of the peer being authenticated (provider-matrix pass): for each crypto provider {default aws-lc-rs: in this process; Chromium-like: a child process of this binary with PENGUIN_TLS_CHROMIUM_LIKE=1, provider installed by tls::init_crypto_provider() and recognised by its cipher-suite list, else MACHINERY} x server leaf key type x client leaf key type (default: {P-256, P-384, Ed25519, RSA-2048}^2; Chromium-like: {P-256, P-384, RSA-2048}^2, Ed25519 is not in that provider's tables; CAs P-256) the complete product server certificate {trusted-CA leaf, other-CA leaf, self-signed} x requested name {matches, differs} x skip-verify x client certificate {none, client-CA, other-CA} x server client-CA {none, set} (roots given to the client: the trusted CA; make_tls_identity), handshake plus 1-byte echo both ways, judged by the reference predicate of the core matrix; what the child finds is reported under the key prefix `chromium.`; a case is distinct when its configuration tuple is distinct".into();

    let t0 = std::time::Instant::now();
    let pkis: Vec<(String, Pki)> = algs.iter().map(|a| ((*a).to_string(), Pki::new(a, &os_store))).collect();
    let pki_of = |alg: &str| &pkis.iter().find(|(a, _)| a == alg).expect("pki").1;
    // provider-matrix pass, default-provider half (the Chromium-like half is made by the child)
    let prov_default = prov_domain("default", &prov_keys("default"));
    let prov_chromium_keys = prov_keys("chromium");
    let prov_chromium_cases = prov_domain("chromium", &prov_chromium_keys).len();
    let prov_pkis = ProvPkis::for_cases(&prov_default);
    let prov_stats = ProvStats::default();
    let prov_child_result: Mutex<Option<Result<Value, String>>> = Mutex::new(None);
    let prov_child_wall: Mutex<f64> = Mutex::new(0.0);
    let keygen_s = t0.elapsed().as_secs_f64();

    let matrix = matrix_domain(&algs, thorough);
    let probes = probe_domain(&algs);
    let reloads = reload_domain(&algs);
    let names = name_domain(&algs);
    let badcas = bad_ca_domain(&algs);
    let ostrust = os_trust_domain(&algs);
    let os_stats = OsStats::default();
    // the half of the os-trust-store pass with an OS trust store without certificates: a child process (own environment)
    let os_empty_cases = os_empty_domain(&os_empty_algs(args)).len();
    let os_empty_result: Mutex<Option<Result<Value, String>>> = Mutex::new(None);
    let sigs = sig_domain(&algs, thorough);
    // the symlink sub-pass of signal-reload: same domain in both tiers
    let syms = sym_domain(&algs);
    let sym_stats = SymStats::default();
    let sym_wall: Mutex<f64> = Mutex::new(0.0);
    let rets = ret_domain(&algs, thorough);
    // the SIGUSR1 ones run one after the other inside the signal-reload job, the others are jobs of their own
    let ret_lib: Vec<usize> = (0..rets.len()).filter(|k| rets[*k].mechanism != RET_SIG).collect();
    let ret_sig: Vec<usize> = (0..rets.len()).filter(|k| rets[*k].mechanism == RET_SIG).collect();
    let ret_stats = RetStats::default();
    let ret_machinery: Mutex<Option<String>> = Mutex::new(None);
    let n_sig_done = AtomicU64::new(0);
    let n_sig_steps_unchanged = AtomicU64::new(0);
    let sig_machinery: Mutex<Option<String>> = Mutex::new(None);
    let sig_wall: Mutex<f64> = Mutex::new(0.0);
    let ret_sig_wall: Mutex<f64> = Mutex::new(0.0);
    let distinct = rets.iter().collect::<HashSet<_>>().len() + sigs.iter().collect::<HashSet<_>>().len() + syms.iter().collect::<HashSet<_>>().len() + badcas.len() + ostrust.iter().collect::<HashSet<_>>().len() + matrix.iter().collect::<HashSet<_>>().len() + probes.iter().collect::<HashSet<_>>().len() + reloads.iter().collect::<HashSet<_>>().len() + names.iter().collect::<HashSet<_>>().len() + prov_default.iter().collect::<HashSet<_>>().len() + prov_chromium_cases + os_empty_cases;
    let n_name_ok = AtomicU64::new(0);
    let n_name_refused = AtomicU64::new(0);
    let n_badca_refused_start = AtomicU64::new(0);

    let rep_m = Mutex::new(rep);
    let sink = Sink { rep: &rep_m };
    let counters = Counters { evals: AtomicU64::new(0) };
    let n_success = AtomicU64::new(0);
    let n_refused = AtomicU64::new(0);
    let n_exp_srv_refusal = AtomicU64::new(0);
    let n_exp_cli_refusal = AtomicU64::new(0);
    let samples: Mutex<Vec<Value>> = Mutex::new(Vec::new());
    let threads = args.threads.clamp(1, 16);

    #[derive(Clone, Copy)]
    enum Job {
        M(usize),
        P(usize),
        R(usize),
        N(usize),
        B(usize),
        /// one os-trust-store case
        O(usize),
        /// one returning-client history (library mechanisms)
        Q(usize),
        /// all signal-reload histories, one after the other (SIGUSR1 is process-wide)
        S,
        /// one point of the provider-matrix pass under the default provider
        K(usize),
    }
    let mut jobs: Vec<Job> = Vec::new();
    // first, so that it overlaps with everything else (it mostly waits)
    jobs.push(Job::S);
    jobs.extend((0..matrix.len()).map(Job::M));
    jobs.extend((0..probes.len()).map(Job::P));
    jobs.extend((0..reloads.len()).map(Job::R));
    jobs.extend((0..names.len()).map(Job::N));
    jobs.extend((0..badcas.len()).map(Job::B));
    jobs.extend((0..ostrust.len()).map(Job::O));
    jobs.extend(ret_lib.iter().copied().map(Job::Q));
    jobs.extend((0..prov_default.len()).map(Job::K));
    let next = AtomicU64::new(0);

    std::thread::scope(|s| {
        // the Chromium-like half of the provider-matrix pass: a child process of its own, next to the pool
        s.spawn(|| {
            let t = std::time::Instant::now();
            let r = prov_spawn(args, None);
            *prov_child_wall.lock().unwrap() = t.elapsed().as_secs_f64();
            *prov_child_result.lock().unwrap() = Some(r);
        });
        // the empty-OS-trust-store half of the os-trust-store pass: a child process too
        s.spawn(|| {
            let r = os_empty_spawn(args, None);
            *os_empty_result.lock().unwrap() = Some(r);
        });
        for _ in 0..threads {
            s.spawn(|| {
                let rt = runtime();
                loop {
                    let i = next.fetch_add(1, Ordering::Relaxed) as usize;
                    let Some(job) = jobs.get(i).copied() else { break };
                    match job {
                        Job::M(k) => {
                            let c = &matrix[k];
                            let pki = pki_of(&c.alg);
                            let o = rt.block_on(run_matrix_case(pki, c));
                            counters.evals.fetch_add(1, Ordering::Relaxed);
                            let exp = judge_matrix(pki, c, &o, &sink);
                            if !exp {
                                if !c.skip && server_cert_defect(&c.server_cert, &c.san, &c.req_name, &c.roots).is_some() {
                                    n_exp_srv_refusal.fetch_add(1, Ordering::Relaxed);
                                } else {
                                    n_exp_cli_refusal.fetch_add(1, Ordering::Relaxed);
                                }
                            }
                            if o.success() {
                                n_success.fetch_add(1, Ordering::Relaxed);
                            } else {
                                n_refused.fetch_add(1, Ordering::Relaxed);
                            }
                            // samples: one expected success, one refusal by the client, one by the server
                            let pick = c.alg == "p256" && c.ctor == "make_tls_identity" && c.san == "localhost" && c.req_name == "localhost" && c.roots == "trusted-ca"
                                && matches!((c.server_cert.as_str(), c.skip, c.client_cert.as_str(), c.server_client_ca), ("trusted-ca", false, "client-ca", true) | ("other-ca", false, "none", false) | ("self-signed", true, "other-ca", true));
                            if pick {
                                samples.lock().unwrap().push(json!({"case": c.to_json(), "expected_success": exp, "observed": o.to_json()}));
                            }
                        }
                        Job::P(k) => {
                            let c = &probes[k];
                            let pki = pki_of(&c.alg);
                            let o = rt.block_on(run_probe_case(pki, c));
                            counters.evals.fetch_add(1, Ordering::Relaxed);
                            let exp = judge_probe(pki, c, &o, &sink);
                            if o.success() {
                                n_success.fetch_add(1, Ordering::Relaxed);
                            } else {
                                n_refused.fetch_add(1, Ordering::Relaxed);
                            }
                            if k == 5 {
                                samples.lock().unwrap().push(json!({"case": c.to_json(), "expected_success": exp, "observed": o.to_json()}));
                            }
                        }
                        Job::N(k) => {
                            let c = &names[k];
                            let o = rt.block_on(run_name_case(pki_of(&c.alg), c));
                            counters.evals.fetch_add(1, Ordering::Relaxed);
                            if judge_name(c, &o, &sink) {
                                n_name_ok.fetch_add(1, Ordering::Relaxed);
                            } else {
                                n_name_refused.fetch_add(1, Ordering::Relaxed);
                            }
                            if k == 3 {
                                samples.lock().unwrap().push(json!({"case": c.to_json(), "observed": format!("{o:?}")}));
                            }
                        }
                        Job::B(k) => {
                            let c = &badcas[k];
                            match rt.block_on(run_bad_ca_case(pki_of(&c.alg), c, &sink, &counters)) {
                                Ok(f) => {
                                    n_badca_refused_start.fetch_add(u64::from(f.iter().any(|(k, _)| k == "start.refused")), Ordering::Relaxed);
                                    if k == 1 {
                                        samples.lock().unwrap().push(json!({"case": c.to_json(), "observed": f}));
                                    }
                                }
                                Err(p) => sink.viol("badca.panic".into(), format!("panic with an unusable client CA {c:?}: {p}"), c.to_json()),
                            }
                        }
                        Job::O(k) => {
                            let c = &ostrust[k];
                            if let Ok(f) = rt.block_on(run_os_trust_case(pki_of(&c.alg), c, &sink, &counters, &os_stats)) {
                                // samples: the control, one client-side and one server-side case with the DER bundle
                                let pick = c.alg == algs[0]
                                    && matches!((c.side.as_str(), c.ca_file.as_str(), c.via.as_str(), c.server_cert.as_str(), c.client_cert.as_str()), ("client", "system", "tls_connect", "os-ca", "none") | ("client", "der", "tls_connect", "os-ca", "none") | ("server", "der", "reload.other-paths", _, _));
                                if pick {
                                    samples.lock().unwrap().push(json!({"case": c.to_json(), "observed": f}));
                                }
                            }
                        }
                        Job::Q(k) => {
                            let c = &rets[k];
                            let res = exec_ret_case(&rt, pki_of(&c.alg), c, &sink, &counters, &ret_stats);
                            if c.alg == "p256" && c.mechanism == "library.other-paths" && c.client == "harness-tls13" && c.client_cert == "none" && c.ca0 == "none" && c.history == ["again", "B/ca1"] {
                                samples.lock().unwrap().push(json!({"case": c.to_json(), "observed": res.facts}));
                            }
                            if let Some(m) = res.machinery {
                                ret_machinery.lock().unwrap().get_or_insert(m);
                            }
                        }
                        Job::S => {
                            let t = std::time::Instant::now();
                            for (k, c) in sigs.iter().enumerate() {
                                match exec_sig_case(pki_of(&c.alg), c, &sink, &counters) {
                                    Ok(res) => {
                                        n_sig_done.fetch_add(1, Ordering::Relaxed);
                                        n_sig_steps_unchanged.fetch_add(res.facts.iter().filter(|(k, _)| k.ends_with(".sees") && k.starts_with("step")).count() as u64, Ordering::Relaxed);
                                        if c.history == ["bad-key", "good-B"] && !c.client_ca && k < 84 {
                                            samples.lock().unwrap().push(json!({"case": c.to_json(), "observed": res.facts}));
                                        }
                                        if let Some(m) = res.machinery {
                                            *sig_machinery.lock().unwrap() = Some(m);
                                            break;
                                        }
                                    }
                                    Err(m) => {
                                        *sig_machinery.lock().unwrap() = Some(m);
                                        break;
                                    }
                                }
                            }
                            *sig_wall.lock().unwrap() = t.elapsed().as_secs_f64();
                            // the symlink sub-pass: command-line parser + symlinked paths (same constraint: one at a time)
                            let t = std::time::Instant::now();
                            if sig_machinery.lock().unwrap().is_none() {
                                for c in &syms {
                                    match exec_sym_case(pki_of(&c.alg), c, &sink, &counters, &sym_stats) {
                                        Ok(res) => {
                                            sym_stats.cases.fetch_add(1, Ordering::Relaxed);
                                            if c.link == "parent-dir-is-symlink" && c.client_ca && c.method == "repoint-symlink" && c.history.len() == 2 {
                                                samples.lock().unwrap().push(json!({"case": c.to_json(), "observed": res.facts}));
                                            }
                                            if let Some(m) = res.machinery {
                                                *sig_machinery.lock().unwrap() = Some(m);
                                                break;
                                            }
                                        }
                                        Err(m) => {
                                            *sig_machinery.lock().unwrap() = Some(m);
                                            break;
                                        }
                                    }
                                }
                            }
                            *sym_wall.lock().unwrap() = t.elapsed().as_secs_f64();
                            // the returning-client histories that raise SIGUSR1 (same constraint: one at a time)
                            let t = std::time::Instant::now();
                            if sig_machinery.lock().unwrap().is_none() {
                                for k in &ret_sig {
                                    let c = &rets[*k];
                                    let res = exec_ret_case(&rt, pki_of(&c.alg), c, &sink, &counters, &ret_stats);
                                    if c.client == "harness-tls13" && c.client_cert == "client-ca" && c.ca0 == "ca1" && c.history == ["B/ca2"] {
                                        samples.lock().unwrap().push(json!({"case": c.to_json(), "observed": res.facts}));
                                    }
                                    if let Some(m) = res.machinery {
                                        ret_machinery.lock().unwrap().get_or_insert(m);
                                        break;
                                    }
                                }
                            }
                            *ret_sig_wall.lock().unwrap() = t.elapsed().as_secs_f64();
                        }
                        Job::K(k) => {
                            let c = &prov_default[k];
                            let (o, exp, found) = exec_prov_case(&rt, &prov_pkis, c, &prov_stats);
                            counters.evals.fetch_add(1, Ordering::Relaxed);
                            for (key, desc) in found {
                                sink.viol(key, desc, c.to_json());
                            }
                            if o.success() {
                                n_success.fetch_add(1, Ordering::Relaxed);
                            } else {
                                n_refused.fetch_add(1, Ordering::Relaxed);
                            }
                            let m = &c.m;
                            if c.server_key == "p384" && c.client_key == "p384" && m.server_cert == "trusted-ca" && m.req_name == "localhost" && !m.skip && m.client_cert == "client-ca" && m.server_client_ca {
                                samples.lock().unwrap().push(json!({"case": c.to_json(), "expected_success": exp, "observed": o.to_json()}));
                            }
                        }
                        Job::R(k) => {
                            let c = &reloads[k];
                            let pki = pki_of(&c.alg);
                            match rt.block_on(run_reload_case(pki, c, &sink, &counters)) {
                                Ok(f) => {
                                    if k == 7 {
                                        samples.lock().unwrap().push(json!({"case": c.to_json(), "observed": f}));
                                    }
                                }
                                Err(p) => sink.viol("reload.panic".into(), format!("panic in reload history {c:?}: {p}"), c.to_json()),
                            }
                        }
                    }
                }
            });
        }
    });

    let mut rep = rep_m.into_inner().unwrap();
    rep.evaluations = counters.evals.load(Ordering::Relaxed);
    rep.distinct_nontrivial = distinct as u64;
    rep.exhaustive = true;
    // ---- provider-matrix pass: what the child (Chromium-like provider) found, merged under the prefix `chromium.`
    let mut prov_machinery: Option<String> = None;
    match prov_child_result.into_inner().unwrap().unwrap_or_else(|| Err("the child process was never started".into())).and_then(|d| prov_child_violations(&d).map(|vs| (d, vs))) {
        Err(e) => prov_machinery = Some(format!("provider-matrix (Chromium-like half): {e}")),
        Ok((d, vs)) => {
            for (key, desc, replay, n) in vs {
                rep.violation_n(format!("chromium.{key}"), desc, replay, n);
            }
            let st = &d["stats"];
            let g = |k: &str| st[k].as_u64().unwrap_or(0);
            rep.evaluations += g("handshakes");
            if g("handshakes") != prov_chromium_cases as u64 {
                prov_machinery = Some(format!("provider-matrix (Chromium-like half): the child process executed {} of {prov_chromium_cases} cases", g("handshakes")));
            } else if g("expected_successes") == 0 || g("expected_successes") == g("handshakes") {
                prov_machinery = Some("provider-matrix (Chromium-like half): degenerate domain: it lacks expected successes or expected refusals".into());
            } else if d["violations"].as_array().is_some_and(Vec::is_empty) && (g("observed_successes") != g("expected_successes") || g("tls13_successes") == 0) {
                prov_machinery = Some(format!("provider-matrix (Chromium-like half): no violation although the counts disagree, or no TLS 1.3 handshake was seen: {st}"));
            }
            rep.extra.insert("provider_matrix_chromium".into(), json!({"provider": d["provider"], "stats": st, "key_types": d["key_types"], "leaf_public_key_bytes": d["leaf_public_key_bytes"], "keygen_s": d["keygen_s"], "wall_s": *prov_child_wall.lock().unwrap()}));
            rep.extra.insert("provider_matrix_samples".into(), d["samples"].clone());
        }
    }
    // ---- os-trust-store pass: what the child (OS trust store without certificates) found, merged under the same keys
    let mut os_empty_machinery: Option<String> = None;
    let mut os_empty_skip_on_ok = 0u64;
    match os_empty_result.into_inner().unwrap().unwrap_or_else(|| Err("the child process was never started".into())).and_then(|d| prov_child_violations(&d).map(|vs| (d, vs))) {
        Err(e) => os_empty_machinery = Some(format!("os-trust-store (empty OS trust store): {e}")),
        Ok((d, vs)) => {
            for (key, desc, replay, n) in vs {
                rep.violation_n(key, desc, replay, n);
            }
            let st = &d["stats"];
            let g = |k: &str| st[k].as_u64().unwrap_or(0);
            rep.evaluations += g("handshakes");
            os_empty_skip_on_ok = g("skip_verify_on_succeeded");
            if g("cases_executed") != os_empty_cases as u64 {
                os_empty_machinery = Some(format!("os-trust-store (empty OS trust store): the child process executed {} of {os_empty_cases} cases", g("cases_executed")));
            }
            rep.extra.insert("os_trust_store_empty_store".into(), json!({"stats": st, "wall_s": d["wall_s"], "samples": d["samples"]}));
        }
    }
    if prov_stats.handshakes.load(Ordering::Relaxed) != prov_default.len() as u64 {
        prov_machinery = Some(format!("provider-matrix (default provider): {} of {} cases were executed", prov_stats.handshakes.load(Ordering::Relaxed), prov_default.len()));
    }
    rep.extra.insert("provider_matrix_default".into(), json!({"provider": parent_provider, "stats": prov_stats.to_json(), "key_types": prov_keys("default"), "leaf_public_key_bytes": prov_pkis.public_key_bytes}));
    rep.bounds.insert("crypto_providers".into(), json!(PROVIDERS));
    rep.bounds.insert("provider_matrix_leaf_key_types".into(), json!({"default": prov_keys("default"), "chromium": prov_chromium_keys, "ca_keys": PROV_CA_KEY, "left_out_under_chromium": "ed25519 (no ED25519 entry in that provider's signature_algorithms table: refused by design on the unchanged tree)"}));
    rep.bounds.insert("provider_matrix_cases".into(), json!({"default (in this process)": prov_default.len(), "chromium (child process)": prov_chromium_cases, "per (server leaf key, client leaf key)": PROV_SERVER_KINDS.len() * PROV_NAMES.len() * 2 * PROV_CLIENT_KINDS.len() * 2}));
    rep.bounds.insert("provider_matrix_dimensions".into(), json!({"server_cert_kinds": PROV_SERVER_KINDS, "name_pairs(san,requested)": PROV_NAMES, "skip_verify": [false, true], "client_cert_kinds": PROV_CLIENT_KINDS, "server_client_ca": [false, true], "client_roots": PROV_ROOTS, "constructor": PROV_CTOR}));
    rep.bounds.insert("key_algorithms".into(), json!(algs));
    rep.bounds.insert("matrix_cases".into(), json!(matrix.len()));
    rep.bounds.insert("probe_cases".into(), json!(probes.len()));
    rep.bounds.insert("reload_histories".into(), json!(reloads.len()));
    rep.bounds.insert("client_name_selection_cases".into(), json!(names.len()));
    rep.bounds.insert("unusable_client_ca_cases".into(), json!(badcas.len()));
    rep.bounds.insert("unusable_client_ca_files".into(), json!(BAD_CA_KINDS));
    rep.bounds.insert("os_trust_store_cases".into(), json!(ostrust.len()));
    rep.bounds.insert("os_trust_store_cases_client_side".into(), json!(ostrust.iter().filter(|c| c.side == "client").count()));
    rep.bounds.insert("os_trust_store_cases_server_side".into(), json!(ostrust.iter().filter(|c| c.side == "server").count()));
    rep.bounds.insert("os_trust_store_unusable_bundles".into(), json!(OS_BUNDLE_KINDS));
    rep.bounds.insert("os_trust_store_client_entry_points".into(), json!(CLIENT_VIA));
    rep.bounds.insert("os_trust_store_skip_verify_on_cases".into(), json!({"over a CA file without certificates (in this process)": ostrust.iter().filter(|c| c.skip).count(), "no CA file, OS trust store without certificates (child process; half of them skip-verify off)": os_empty_cases, "server_certificates": OS_SKIP_SERVER_CERTS, "client_certificates": ["none", "client-ca"], "ca_files_without_certificates": OS_SKIP_BUNDLE_KINDS}));
    rep.bounds.insert("os_trust_store_empty_store_kinds".into(), json!(OS_EMPTY_STORE_KINDS));
    rep.bounds.insert("os_trust_store".into(), json!("SSL_CERT_FILE = bundle holding only os-ca (one per key algorithm), SSL_CERT_DIR unset; set before any TLS configuration is built"));
    rep.bounds.insert("signal_reload_histories".into(), json!(sigs.len()));
    rep.bounds.insert("signal_reload_alphabet".into(), json!(SIG_ALPHABET));
    rep.bounds.insert("signal_reload_history_length".into(), json!(if thorough { "1..=4 (all); 1..=2 with client CA and per further key algorithm" } else { "1..=2 (all); 3 (first step bad-key/bad-cert and last step good-A/good-B, plus [good-B, bad-key, good-A])" }));
    rep.bounds.insert("signal_reload_deadlines_ms".into(), json!({"new_identity_visible": SIG_APPLY_DEADLINE.as_millis() as u64, "settle_before_unchanged_look": SIG_SETTLE.as_millis() as u64, "server_start": SIG_START_DEADLINE.as_millis() as u64}));
    let ld = |a: &AtomicU64| a.load(Ordering::Relaxed);
    rep.bounds.insert("signal_reload_symlink_histories".into(), json!(syms.len()));
    rep.bounds.insert("signal_reload_symlink_dimensions".into(), json!({"link": SYM_LINKS, "client_ca": [false, true], "rotation": SYM_METHODS, "history (start: generation A)": SYM_HISTORIES, "arguments": "PenguinCli::try_parse_from(penguin server --host 127.0.0.1 --port <p> --404-resp 404 --timeout 900 --tls-cert <abs> --tls-key <abs> [--tls-ca <abs>])", "new_generation_visible_deadline_ms": SYM_APPLY_DEADLINE.as_millis() as u64}));
    rep.extra.insert("signal_reload_symlink".into(), json!({"histories_run": ld(&sym_stats.cases), "rotations_applied": ld(&sym_stats.steps_applied), "rotations_applied_by_repointing_a_symlink": ld(&sym_stats.steps_applied_by_repoint), "handshakes": ld(&sym_stats.handshakes), "clients_of_the_client_ca_in_force_served": ld(&sym_stats.current_ca_served), "clients_of_the_other_client_ca_refused": ld(&sym_stats.other_ca_refused), "histories_where_the_parser_kept_the_paths_as_given": ld(&sym_stats.paths_kept_by_parser), "wall_s": *sym_wall.lock().unwrap()}));
    rep.bounds.insert("returning_client_histories".into(), json!(rets.len()));
    rep.bounds.insert("returning_client_histories_sigusr1".into(), json!(ret_sig.len()));
    rep.bounds.insert("returning_client_clients".into(), json!(RET_CLIENTS));
    rep.bounds.insert("returning_client_starts(client_cert,client_ca)".into(), json!(RET_STARTS));
    rep.bounds.insert("returning_client_steps".into(), json!(RET_STEPS));
    rep.bounds.insert("returning_client_history_length".into(), json!(if thorough { "library: 1..=3 (first key algorithm), 1..=2 (others), x 3 reload methods; sigusr1: 1..=2 (harness-tls13), 1 (other clients)" } else { "library: 1..=2 x 3 reload methods; sigusr1: 1 (harness-tls13 only)" }));
    rep.extra.insert("returning_client_histories".into(), json!(ld(&ret_stats.histories)));
    rep.extra.insert("returning_client_histories_sigusr1".into(), json!(ld(&ret_stats.sig_histories)));
    rep.extra.insert("returning_client_handshakes".into(), json!(ld(&ret_stats.handshakes)));
    rep.extra.insert("resumed_handshakes_without_reload".into(), json!(ret_stats.resumed_without_reload.iter().map(ld).sum::<u64>()));
    rep.extra.insert("resumed_handshakes_without_reload_by_client".into(), json!(RET_CLIENTS.iter().zip(&ret_stats.resumed_without_reload).map(|(c, n)| ((*c).to_string(), json!(ld(n)))).collect::<serde_json::Map<String, Value>>()));
    rep.extra.insert("resumed_handshakes_across_reload".into(), json!(ld(&ret_stats.resumed_across_reload)));
    rep.extra.insert("full_handshakes_after_reload".into(), json!(ld(&ret_stats.full_after_reload)));
    rep.extra.insert("returning_client_expected_accepts".into(), json!(ld(&ret_stats.expected_accepts)));
    rep.extra.insert("returning_client_expected_rejections".into(), json!(ld(&ret_stats.expected_rejections)));
    rep.extra.insert("returning_client_observed_rejections".into(), json!(ld(&ret_stats.observed_rejections)));
    rep.extra.insert("returning_client_control_histories".into(), json!(ld(&ret_stats.controls_run)));
    rep.extra.insert("returning_client_control_histories_resumed".into(), json!(ld(&ret_stats.controls_resumed)));
    rep.extra.insert("returning_client_sigusr1_wall_s".into(), json!(*ret_sig_wall.lock().unwrap()));
    rep.extra.insert("signal_reload_histories_run".into(), json!(n_sig_done.load(Ordering::Relaxed)));
    rep.extra.insert("signal_reload_steps_expecting_no_change".into(), json!(n_sig_steps_unchanged.load(Ordering::Relaxed)));
    rep.extra.insert("signal_reload_wall_s".into(), json!(*sig_wall.lock().unwrap()));
    let n_os_controls = ostrust.iter().filter(|c| c.is_system_control()).count() as u64;
    rep.extra.insert("os_trust_store_cases".into(), json!(os_stats.cases.load(Ordering::Relaxed)));
    rep.extra.insert("os_trust_store_controls".into(), json!(n_os_controls));
    rep.extra.insert("os_trust_store_control_ok".into(), json!(os_stats.control_ok.load(Ordering::Relaxed)));
    rep.extra.insert("os_trust_store_expected_refusals".into(), json!(os_stats.expected_refusals.load(Ordering::Relaxed)));
    rep.extra.insert("os_trust_store_observed_refusals".into(), json!(os_stats.observed_refusals.load(Ordering::Relaxed)));
    rep.extra.insert("os_trust_store_configurations_refused".into(), json!(os_stats.configs_refused.load(Ordering::Relaxed)));
    rep.extra.insert("os_trust_store_file".into(), json!("SSL_CERT_FILE -> <tempdir>/os-trust-store.pem"));
    rep.extra.insert("os_trust_store_skip_verify_on_empty_roots_handshakes".into(), json!(ld(&os_stats.skip_on_run)));
    rep.extra.insert("os_trust_store_skip_verify_on_empty_roots_succeeded".into(), json!(ld(&os_stats.skip_on_ok)));
    rep.extra.insert("unusable_client_ca_refused_at_start".into(), json!(n_badca_refused_start.load(Ordering::Relaxed)));
    rep.extra.insert("client_name_expected_accept".into(), json!(n_name_ok.load(Ordering::Relaxed)));
    rep.extra.insert("client_name_expected_refuse".into(), json!(n_name_refused.load(Ordering::Relaxed)));
    rep.bounds.insert("name_pairs(san,requested)".into(), json!(names_for(thorough)));
    rep.bounds.insert("server_cert_kinds".into(), json!(SERVER_KINDS));
    rep.bounds.insert("client_cert_kinds".into(), json!(CLIENT_KINDS));
    rep.bounds.insert("client_roots".into(), json!(ROOTS));
    rep.bounds.insert("constructors".into(), json!(CTORS));
    rep.extra.insert("handshakes_succeeded".into(), json!(n_success.load(Ordering::Relaxed)));
    rep.extra.insert("handshakes_refused".into(), json!(n_refused.load(Ordering::Relaxed)));
    rep.extra.insert("matrix_expected_refusals_by_client".into(), json!(n_exp_srv_refusal.load(Ordering::Relaxed)));
    rep.extra.insert("matrix_expected_refusals_by_server".into(), json!(n_exp_cli_refusal.load(Ordering::Relaxed)));
    rep.extra.insert("keygen_s".into(), json!(keygen_s));
    rep.extra.insert("build_profile".into(), json!(if cfg!(debug_assertions) { "checked" } else { "release" }));
    // the report keeps the first six samples: one per kind of case first (the newest pass first), then the rest
    let mut samples = samples.into_inner().unwrap();
    rep.extra.insert("returning_client_samples".into(), json!(samples.iter().filter(|s| s["case"]["kind"] == "returning-client").collect::<Vec<_>>()));
    let mut seen_kinds: HashSet<String> = HashSet::new();
    let kind_of = |s: &Value| s["case"]["kind"].as_str().unwrap_or("").to_string();
    samples.sort_by_key(|s| u8::from(kind_of(s) != "returning-client"));
    let (firsts, rest): (Vec<Value>, Vec<Value>) = samples.into_iter().partition(|s| seen_kinds.insert(kind_of(s)));
    for s in firsts.into_iter().chain(rest) {
        rep.sample(s);
    }
    rep.assumptions.push("the system trust store of the process is what SSL_CERT_FILE names (rustls-native-certs reads the variable on every load and then ignores the machine's own store): a bundle holding only os-ca, which issued nothing but the certificates of the os-trust-store pass; roots = \"system\" means no --tls-ca. That the variable really feeds the subject's built-in roots is checked by the control cases (os_trust_store_control_ok must equal os_trust_store_controls, else MACHINERY). A subject built with other built-in roots as well (webpki-roots, dn42-roots features) would still pass the control; those roots issued none of the certificates used here".into());
    rep.assumptions.push("transport is an in-memory duplex pipe (loopback TCP in the client-name and signal-reload passes); TCP-level effects (resets, partial writes) are out of scope of this property".into());
    rep.assumptions.push("signal-reload symlink sub-pass: the server's arguments are what the subject's clap parser makes of an absolute-path command line; a rotation is complete (every link re-pointed by rename, or every file rewritten) before SIGUSR1 is raised; the new generation is given 20 s to govern new connections; a client counts as refused only when its handshake fails or its connection is closed instead of an HTTP response, as served only when an HTTP response arrives".into());
    rep.assumptions.push("signal-reload pass: SIGUSR1 is raised by the process on itself (raise) only after the server accepted a TLS connection, i.e. after its handler task exists; the reload is given 3 s to become visible".into());
    rep.assumptions.push("returning-client pass: the client is rustls with its in-memory session store (tickets and session ids), one ClientConfig per history; whether a handshake was resumed is what rustls reports (handshake_kind) on either side; a resumption across a reload is not an alarm by itself (reloading the same identity may resume), only its effects are judged".into());
    rep.assumptions.push("the subject client is TLS 1.3 only (ECH grease); TLS 1.2 client authentication is exercised by the harness-owned probing client".into());
    rep.assumptions.push("certificate chains have depth 1 (leaf directly under the CA); name matching is checked for one DNS mismatch in each direction (and IP names in the thorough tier)".into());
    // vacuity guard: the domain must contain configurations of every expected outcome (success,
    // refusal by the client, refusal by the server); judged on the reference's expectations so
    // that a subject that refuses or admits everything is reported as a violation, not as a
    // machinery problem.
    let n_exp_success = matrix.iter().filter(|c| (c.skip || server_cert_defect(&c.server_cert, &c.san, &c.req_name, &c.roots).is_none()) && client_cert_defect(&c.client_cert, c.server_client_ca).is_none()).count();
    rep.extra.insert("matrix_expected_successes".into(), json!(n_exp_success));
    if n_exp_success == 0 || n_exp_srv_refusal.load(Ordering::Relaxed) == 0 || n_exp_cli_refusal.load(Ordering::Relaxed) == 0 {
        rep.machinery_error = Some("degenerate domain: it lacks expected successes or expected refusals".into());
    }
    let (s, r) = (n_success.load(Ordering::Relaxed), n_refused.load(Ordering::Relaxed));
    if (s == 0 || r == 0) && rep.violations.is_empty() {
        rep.machinery_error = Some(format!("degenerate run: {s} successful / {r} refused handshakes observed"));
    }
    if rep.evaluations < (matrix.len() + probes.len() + reloads.len() + names.len()) as u64 {
        rep.machinery_error = Some("not every case was executed".into());
    }
    // os-trust-store pass: every case executed and every control holds; otherwise its silence means nothing
    let os_control_failures = os_stats.control_failures.lock().unwrap().clone();
    if let Some(f) = os_control_failures.first() {
        rep.machinery_error = Some(format!(
            "os-trust-store: {} of {n_os_controls} controls do not hold: with NO CA file configured a server certificate issued by the CA in SSL_CERT_FILE ({}) must be accepted (otherwise the variable does not feed the subject's built-in roots on this machine and the cases with a CA file without certificates say nothing); first: {f}",
            os_control_failures.len(),
            os_store.path
        ));
    } else if rep.violations.is_empty() && (os_stats.cases.load(Ordering::Relaxed) != ostrust.len() as u64 || os_stats.control_ok.load(Ordering::Relaxed) != n_os_controls || n_os_controls == 0) {
        rep.machinery_error = Some(format!("os-trust-store: {} of {} cases were executed, {} of {n_os_controls} controls hold", os_stats.cases.load(Ordering::Relaxed), ostrust.len(), os_stats.control_ok.load(Ordering::Relaxed)));
    }
    // skip-verify over an empty root store: the child ran, and in a clean run such handshakes were seen to succeed (both halves)
    if let Some(m) = os_empty_machinery {
        rep.machinery_error = Some(m);
    } else if rep.violations.is_empty() && (ld(&os_stats.skip_on_ok) == 0 || os_empty_skip_on_ok == 0) {
        rep.machinery_error = Some(format!("os-trust-store: no violation although no skip-verify-ON handshake over an empty root store succeeded ({} over a CA file without certificates, {os_empty_skip_on_ok} over an OS trust store without certificates): vacuous", ld(&os_stats.skip_on_ok)));
    }
    // returning-client pass: every history executed, and the controls show that this set-up resumes at all
    let control_failures = ret_stats.control_failures.lock().unwrap().clone();
    if let Some(m) = ret_machinery.into_inner().unwrap() {
        rep.machinery_error = Some(m);
    } else if !control_failures.is_empty() {
        rep.machinery_error = Some(format!(
            "returning-client: in {} of {} control histories [first visit, second visit without any reload] the second handshake was NOT a resumption (first: {}): sessions are not resumed in this set-up, so the histories with a reload would say nothing",
            control_failures.len(),
            ld(&ret_stats.controls_run),
            control_failures[0]
        ));
    } else if rep.violations.is_empty() && (ld(&ret_stats.histories) != rets.len() as u64 || ld(&ret_stats.sig_histories) != ret_sig.len() as u64) && sig_machinery.lock().unwrap().is_none() {
        rep.machinery_error = Some(format!("returning-client: {} of {} histories were executed ({} of {} through SIGUSR1)", ld(&ret_stats.histories), rets.len(), ld(&ret_stats.sig_histories), ret_sig.len()));
    } else if rep.violations.is_empty() && ret_stats.resumed_without_reload.iter().any(|n| ld(n) == 0) {
        rep.machinery_error = Some(format!("returning-client: no resumed handshake without a reload in between was observed for at least one client kind ({:?}): vacuous", rep.extra.get("resumed_handshakes_without_reload_by_client")));
    }
    if let Some(m) = prov_machinery {
        rep.machinery_error = Some(m);
    }
    if let Some(m) = sig_machinery.into_inner().unwrap() {
        rep.machinery_error = Some(m);
    } else if n_sig_done.load(Ordering::Relaxed) != sigs.len() as u64 {
        rep.machinery_error = Some(format!("signal-reload: {} of {} histories were executed", n_sig_done.load(Ordering::Relaxed), sigs.len()));
    } else if ld(&sym_stats.cases) != syms.len() as u64 {
        rep.machinery_error = Some(format!("signal-reload symlink: {} of {} histories were executed", ld(&sym_stats.cases), syms.len()));
    } else if rep.violations.is_empty() && (ld(&sym_stats.steps_applied) != syms.iter().map(|c| c.history.len() as u64).sum::<u64>() || ld(&sym_stats.other_ca_refused) == 0 || ld(&sym_stats.current_ca_served) == 0) {
        rep.machinery_error = Some(format!("signal-reload symlink: no violation although not every rotation was seen to take effect, or no client was ever served / refused under a client CA: {:?}", rep.extra.get("signal_reload_symlink")));
    }
    rep
}
