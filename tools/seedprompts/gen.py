#!/usr/bin/env python3
"""Generate the prompt for a fresh seeding sub-agent: tools/seedprompts/gen.py <ID> <round> -> /tmp/seedprompts/<ID>-r<round>.txt
The agent gets ONLY the property record, a scratch worktree path and one-line descriptions of spots already used."""
import json, sys, glob, os
pid, rnd = sys.argv[1], sys.argv[2]
here = os.path.dirname(os.path.abspath(__file__))
t = open(os.path.join(here, 'TEMPLATE.txt')).read()
extra = open(os.path.join(here, 'EXTRA.txt')).read()
props = {json.loads(l)['id']: json.loads(l) for l in open('/verif/properties.jsonl')}
avoid = []
files = set()
for d in sorted(glob.glob(f'/verif/seeded/{pid}-*/')):
    try:
        m = json.load(open(d + 'meta.json'))
    except Exception:
        continue
    s = (m.get('summary') or '').replace('\n', ' ')
    avoid.append(s[:260])
    for f in m.get('files_changed') or []:
        files.add(str(f).split('/tmp/')[-1].split('/', 1)[-1] if str(f).startswith('/tmp/') else str(f))
wt = f'/tmp/wt{rnd}-{pid}'
p = t.replace('@@PROPERTY_JSON@@', json.dumps(props[pid], indent=1)).replace('@@WT@@', wt).replace('@@ID@@', pid)
p += extra.replace('@@AVOID@@', '; '.join(f'({i+1}) {x}' for i, x in enumerate(avoid)))
if files:
    p += "\nFiles already modified by those earlier breaks: " + ", ".join(sorted(files)) + ". If the property can be broken from a file that is NOT in this list (another module of the same crate, a helper, configuration/option handling, the glue code in the `penguin` crate that calls into the library, ...), prefer that.\n"
os.makedirs('/tmp/seedprompts', exist_ok=True)
open(f'/tmp/seedprompts/{pid}-r{rnd}.txt', 'w').write(p)
print(wt, len(avoid))
