//! Demonstrations for property C04 ("streams always make progress while the
//! application keeps reading"). Every test here FAILS on the unmodified tree.
//
// SPDX-License-Identifier: Apache-2.0 OR GPL-3.0-or-later

use bytes::Bytes;
use penguin_mux::config::Options;
use penguin_mux::frame::BindType;
use penguin_mux::ws::{Message, WebSocket};
use penguin_mux::{Datagram, Error, Multiplexor};
use std::sync::Arc;
use std::task::{Context, Poll};
use std::time::Duration;
use tokio::io::{AsyncReadExt, AsyncWriteExt};
use tokio::sync::mpsc;

/// In-memory, unbounded, reliable, ordered "WebSocket" (same as the crate's own test mock).
struct MockWs(
    Option<mpsc::UnboundedSender<Message>>,
    mpsc::UnboundedReceiver<Message>,
);

impl WebSocket for MockWs {
    fn poll_ready_unpin(&mut self, _cx: &mut Context<'_>) -> Poll<Result<(), Error>> {
        if self.0.is_none() {
            Poll::Ready(Err(Error::Closed))
        } else {
            Poll::Ready(Ok(()))
        }
    }
    fn start_send_unpin(&mut self, item: Message) -> Result<(), Error> {
        let Some(sender) = &self.0 else {
            return Err(Error::Closed);
        };
        sender.send(item).or(Err(Error::Closed))
    }
    fn poll_flush_unpin(&mut self, _cx: &mut Context<'_>) -> Poll<Result<(), Error>> {
        Poll::Ready(Ok(()))
    }
    fn poll_close_unpin(&mut self, _cx: &mut Context<'_>) -> Poll<Result<(), Error>> {
        self.0.take();
        Poll::Ready(Ok(()))
    }
    fn poll_next_unpin(&mut self, cx: &mut Context<'_>) -> Poll<Option<Result<Message, Error>>> {
        self.1.poll_recv(cx).map(|x| x.map(Ok))
    }
}

fn mock_pair() -> (MockWs, MockWs) {
    let (tx1, rx1) = mpsc::unbounded_channel();
    let (tx2, rx2) = mpsc::unbounded_channel();
    (MockWs(Some(tx1), rx2), MockWs(Some(tx2), rx1))
}

const PATIENCE: Duration = Duration::from_secs(3);

/// Finding 1.
///
/// The receiving end enables `Bind` requests (`bind_buffer_size(1)`, a configuration the
/// options API accepts) and its application keeps reading its stream, keeps accepting new
/// streams and keeps receiving datagrams. It does not look at `Bind` requests (like the
/// `penguin` server with `--reverse`, which never calls `next_bind_request`).
///
/// Two `Bind` requests from the peer are enough to park the connection task inside
/// `bnd_request_tx.send(..).await`; from then on no inbound frame of ANY flow is dispatched.
#[tokio::test]
async fn f1_unread_bind_requests_must_not_stall_streams_and_datagrams() {
    let (a, b) = mock_pair();
    let sender_mux = Arc::new(Multiplexor::new_with_opt(a, Options::new(), None));
    let receiver_mux = Arc::new(Multiplexor::new_with_opt(
        b,
        Options::new().bind_buffer_size(1),
        None,
    ));

    // One established stream whose reader never stops reading.
    let (s_tx, s_rx) = tokio::join!(
        sender_mux.new_stream_channel(b"example.com", 80),
        receiver_mux.accept_stream_channel()
    );
    let (mut s_tx, mut s_rx) = (s_tx.unwrap(), s_rx.unwrap());
    let (got_tx, mut got_rx) = mpsc::unbounded_channel::<usize>();
    tokio::spawn(async move {
        let mut buf = [0u8; 1024];
        loop {
            match s_rx.read(&mut buf).await {
                Ok(0) | Err(_) => break,
                Ok(n) => got_tx.send(n).unwrap(),
            }
        }
    });
    // The receiving application also keeps accepting new streams ...
    let (acc_tx, mut acc_rx) = mpsc::unbounded_channel();
    let acceptor_mux = receiver_mux.clone();
    tokio::spawn(async move {
        while let Ok(stream) = acceptor_mux.accept_stream_channel().await {
            acc_tx.send(stream).unwrap();
        }
    });
    // ... and keeps receiving datagrams.
    let (dg_tx, mut dg_rx) = mpsc::unbounded_channel();
    let datagram_mux = receiver_mux.clone();
    tokio::spawn(async move {
        while let Ok(datagram) = datagram_mux.get_datagram().await {
            dg_tx.send(datagram).unwrap();
        }
    });

    // Sanity: the stream works.
    s_tx.write_all(b"before").await.unwrap();
    let n = tokio::time::timeout(PATIENCE, got_rx.recv()).await.unwrap();
    assert_eq!(n, Some(6));

    // The peer asks for two binds; nobody answers them (their futures just stay pending).
    for port in [1000u16, 1001] {
        let mux = sender_mux.clone();
        tokio::spawn(async move {
            let _ = mux.request_bind(b"0.0.0.0", port, BindType::Stream).await;
        });
    }
    tokio::time::sleep(Duration::from_millis(100)).await;

    // 1. the established stream: a single 5-byte write, far below any window
    s_tx.write_all(b"after").await.unwrap();
    let stream_ok = tokio::time::timeout(PATIENCE, got_rx.recv()).await;
    // 2. a datagram
    sender_mux
        .send_datagram(Datagram {
            flow_id: 7,
            target_host: Bytes::from_static(b"example.com"),
            target_port: 53,
            data: Bytes::from_static(b"ping"),
        })
        .await
        .unwrap();
    let datagram_ok = tokio::time::timeout(PATIENCE, dg_rx.recv()).await;
    // 3. a new stream request
    let new_stream_ok = tokio::time::timeout(PATIENCE, async {
        let s = sender_mux.new_stream_channel(b"example.com", 81).await;
        let accepted = acc_rx.recv().await;
        (s.is_ok(), accepted.is_some())
    })
    .await;

    assert!(
        stream_ok.is_ok() && datagram_ok.is_ok() && new_stream_ok.is_ok(),
        "connection stalled behind unread Bind requests: stream data delivered: {}, \
         datagram delivered: {}, new stream established: {}",
        stream_ok.is_ok(),
        datagram_ok.is_ok(),
        new_stream_ok.is_ok()
    );
}

/// Finding 2.
///
/// `poll_write` puts the whole buffer of one call into a single `Push` frame, i.e. a single
/// WebSocket message, whatever its size. The bundled transport (`tokio-tungstenite` with its
/// default configuration, which is what `penguin` and the crate's own tests use) refuses
/// frames above 16 MiB on the receiving side, and the connection task treats that as fatal.
/// So one large `write_all` "completes" but its bytes never become readable, and every other
/// stream of the connection dies with it, although every reader keeps reading.
#[tokio::test]
async fn f2_one_large_write_must_not_kill_the_connection() {
    use tokio_tungstenite::{WebSocketStream, tungstenite::protocol::Role};
    const BIG: usize = (16 << 20) + 1;

    let (c, s) = tokio::io::duplex(1 << 16);
    let c = WebSocketStream::from_raw_socket(c, Role::Client, None).await;
    let s = WebSocketStream::from_raw_socket(s, Role::Server, None).await;
    let sender_mux = Multiplexor::new_with_opt(c, Options::new(), None);
    let receiver_mux = Multiplexor::new_with_opt(s, Options::new(), None);

    // An unrelated stream on the same connection
    let (o_tx, o_rx) = tokio::join!(
        sender_mux.new_stream_channel(b"other", 1),
        receiver_mux.accept_stream_channel()
    );
    let (mut o_tx, mut o_rx) = (o_tx.unwrap(), o_rx.unwrap());
    // The stream that carries the large write
    let (b_tx, b_rx) = tokio::join!(
        sender_mux.new_stream_channel(b"big", 2),
        receiver_mux.accept_stream_channel()
    );
    let (mut b_tx, mut b_rx) = (b_tx.unwrap(), b_rx.unwrap());

    let reader = tokio::spawn(async move {
        let mut total = 0usize;
        let mut buf = vec![0u8; 1 << 16];
        loop {
            match b_rx.read(&mut buf).await {
                Ok(0) | Err(_) => break total,
                Ok(n) => total += n,
            }
        }
    });

    let payload = vec![0x5au8; BIG];
    // One call, one buffer: the most ordinary way to send a blob
    b_tx.write_all(&payload).await.unwrap();
    b_tx.shutdown().await.unwrap();
    let total = tokio::time::timeout(Duration::from_secs(60), reader)
        .await
        .expect("reader did not finish")
        .unwrap();

    // The unrelated stream must still work
    let other_ok = tokio::time::timeout(PATIENCE, async {
        if o_tx.write_all(b"hello").await.is_err() {
            return false;
        }
        let mut buf = [0u8; 5];
        o_rx.read_exact(&mut buf).await.is_ok() && &buf == b"hello"
    })
    .await
    .unwrap_or(false);

    assert!(
        total == BIG && other_ok,
        "a completed write of {BIG} bytes delivered {total} bytes; unrelated stream still works: {other_ok}"
    );
}

/// Finding 3.
///
/// `accept_stream_channel` (and `get_datagram`, `next_bind_request`) take `&self`, so several
/// tasks may wait on the same `Multiplexor`. They all poll one `mpsc::Receiver`, which keeps
/// a single waker: the last one to poll. A task that keeps accepting can therefore sleep
/// forever while streams are ready for it; once `stream_buffer_size` streams are queued the
/// connection task itself blocks and everything on the connection stalls.
#[tokio::test]
async fn f3_an_acceptor_must_not_sleep_while_a_stream_is_ready() {
    let (a, b) = mock_pair();
    let sender_mux = Multiplexor::new_with_opt(a, Options::new(), None);
    let receiver_mux = Arc::new(Multiplexor::new_with_opt(b, Options::new(), None));

    // Worker 1 starts accepting first and never stops.
    let (acc_tx, mut acc_rx) = mpsc::unbounded_channel();
    let mux = receiver_mux.clone();
    tokio::spawn(async move {
        while let Ok(stream) = mux.accept_stream_channel().await {
            acc_tx.send(stream).unwrap();
        }
    });
    tokio::time::sleep(Duration::from_millis(50)).await;
    // Worker 2 waits for a stream too, but gives up after a while (cancel safe per the docs).
    let mux = receiver_mux.clone();
    tokio::spawn(async move {
        let _ = tokio::time::timeout(Duration::from_millis(50), mux.accept_stream_channel()).await;
    });
    tokio::time::sleep(Duration::from_millis(200)).await;

    // Now the peer opens a stream. Worker 1 is still accepting.
    let opened = tokio::time::timeout(PATIENCE, sender_mux.new_stream_channel(b"x", 1)).await;
    assert!(opened.is_ok(), "stream request did not complete");
    let accepted = tokio::time::timeout(PATIENCE, acc_rx.recv()).await;
    assert!(
        accepted.is_ok(),
        "a stream is queued for the application and a task is waiting in \
         `accept_stream_channel`, but it was never woken"
    );
}

/// Finding 4.
///
/// The options API accepts any positive buffer size, but sizes above
/// `tokio::sync::Semaphore::MAX_PERMITS` make `Multiplexor::new_*` panic.
#[tokio::test]
async fn f4_every_accepted_buffer_size_must_give_a_working_multiplexor() {
    let options = Options::new().datagram_buffer_size(usize::MAX);
    let (a, _b) = mock_pair();
    let r = std::panic::catch_unwind(std::panic::AssertUnwindSafe(|| {
        let (mux, _task) = Multiplexor::new_detailed::<_, std::time::Instant>(
            a,
            options,
            <rand::rngs::SmallRng as rand::SeedableRng>::seed_from_u64(1),
        );
        drop(mux);
    }));
    assert!(
        r.is_ok(),
        "`Options::datagram_buffer_size(usize::MAX)` is accepted but the multiplexor cannot be built"
    );
}

/// Finding 5 (adjacent to the property: the reader here is not slow, it is gone).
///
/// One end half-closes its stream (`shutdown`, i.e. `Finish`) and later drops it without
/// having read what the peer sent in the meantime. Because `Finish` was sent, the drop is
/// silent: no `Reset` goes out. A peer writer that is parked waiting for window credit at
/// that moment is woken by neither `Acknowledge` nor close, so its write neither completes
/// nor fails, forever, while its own application keeps reading (it saw EOF long ago).
#[tokio::test]
async fn f5_dropping_a_half_closed_stream_must_release_the_blocked_peer_writer() {
    let (a, b) = mock_pair();
    let a_mux = Multiplexor::new_with_opt(a, Options::new().rwnd(4), None);
    let b_mux = Multiplexor::new_with_opt(b, Options::new(), None);
    let (sa, sb) = tokio::join!(
        a_mux.new_stream_channel(b"example.com", 80),
        b_mux.accept_stream_channel()
    );
    let (mut sa, mut sb) = (sa.unwrap(), sb.unwrap());

    // A sends its request and half-closes.
    sa.write_all(b"request").await.unwrap();
    sa.shutdown().await.unwrap();
    // B reads the request up to EOF ...
    let mut request = Vec::new();
    sb.read_to_end(&mut request).await.unwrap();
    assert_eq!(request, b"request");
    // ... and answers with more frames than A's window (4): the writer parks on the fifth.
    let writer = tokio::spawn(async move {
        for i in 0..64u8 {
            if let Err(e) = sb.write_all(&[i; 16]).await {
                return Err(e.kind());
            }
        }
        Ok(())
    });
    tokio::time::sleep(Duration::from_millis(100)).await;
    assert!(!writer.is_finished(), "the writer should be waiting for credit");

    // A loses interest (error, timeout, local client went away, ...) and drops the stream.
    drop(sa);

    let outcome = tokio::time::timeout(PATIENCE, writer).await;
    assert!(
        outcome.is_ok(),
        "the peer dropped the stream, but the blocked writer neither completed nor failed"
    );
    assert_eq!(
        outcome.unwrap().unwrap(),
        Err(std::io::ErrorKind::BrokenPipe)
    );
}

/// Finding 5, second path: same history, but the peer's window-filling frames reach the
/// connection task after the stream was dropped and before the task has processed the drop
/// notification (it looks at the transport first). They are discarded without a reply
/// ("dropped `MuxStream` not yet removed from the map"), and the flow is then closed
/// silently because `Finish` had been sent.
#[tokio::test]
async fn f5b_frames_for_a_just_dropped_half_closed_stream_must_not_vanish_silently() {
    use std::sync::Mutex;
    use std::sync::atomic::{AtomicBool, Ordering};

    // b -> a goes through a relay that the test can hold back
    let (a_out_tx, a_out_rx) = mpsc::unbounded_channel();
    let (b_out_tx, mut b_out_rx) = mpsc::unbounded_channel::<Message>();
    let (a_in_tx, a_in_rx) = mpsc::unbounded_channel();
    let a = MockWs(Some(a_out_tx), a_in_rx);
    let b = MockWs(Some(b_out_tx), a_out_rx);
    let hold = Arc::new(AtomicBool::new(false));
    let held: Arc<Mutex<Vec<Message>>> = Arc::new(Mutex::new(Vec::new()));
    let (hold2, held2, a_in_tx2) = (hold.clone(), held.clone(), a_in_tx.clone());
    tokio::spawn(async move {
        while let Some(msg) = b_out_rx.recv().await {
            if hold2.load(Ordering::SeqCst) {
                held2.lock().unwrap().push(msg);
            } else if a_in_tx2.send(msg).is_err() {
                break;
            }
        }
    });

    let a_mux = Multiplexor::new_with_opt(a, Options::new().rwnd(4), None);
    let b_mux = Multiplexor::new_with_opt(b, Options::new(), None);
    let (sa, sb) = tokio::join!(
        a_mux.new_stream_channel(b"example.com", 80),
        b_mux.accept_stream_channel()
    );
    let (mut sa, mut sb) = (sa.unwrap(), sb.unwrap());
    sa.write_all(b"request").await.unwrap();
    sa.shutdown().await.unwrap();
    let mut request = Vec::new();
    sb.read_to_end(&mut request).await.unwrap();

    // From now on frames towards A are in flight
    hold.store(true, Ordering::SeqCst);
    let writer = tokio::spawn(async move {
        for i in 0..64u8 {
            if let Err(e) = sb.write_all(&[i; 16]).await {
                return Err(e.kind());
            }
        }
        Ok(())
    });
    tokio::time::sleep(Duration::from_millis(100)).await;
    assert!(!writer.is_finished(), "the writer should be waiting for credit");
    assert_eq!(held.lock().unwrap().len(), 4);

    // A drops the stream, and the frames in flight arrive right after that
    drop(sa);
    for msg in held.lock().unwrap().drain(..) {
        a_in_tx.send(msg).unwrap();
    }
    hold.store(false, Ordering::SeqCst);

    let outcome = tokio::time::timeout(PATIENCE, writer).await;
    assert!(
        outcome.is_ok(),
        "the peer dropped the stream, but the blocked writer neither completed nor failed"
    );
    assert_eq!(
        outcome.unwrap().unwrap(),
        Err(std::io::ErrorKind::BrokenPipe)
    );
}
