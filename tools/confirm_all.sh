#!/bin/bash
cd /verif
for d in seeded/[!_]*/; do
  n=$(basename $d)
  [ -f $d/confirm.json ] && grep -q '"confirmed": true' $d/confirm.json && continue
  echo "=== $n $(date +%H:%M:%S)"
  tools/confirm_seed.sh $d 2>&1 | tail -1
done
echo ALLDONE
