//! Scratch stress of the production atomics (futures AtomicWaker), not part of the tree.
use crate::loom::{Arc, AtomicBool, AtomicU32, AtomicWaker};
use crate::stream::MuxStream;
use crate::EstablishedStreamData;
use bytes::Bytes;
use core::task::{Context, Poll, Waker};
use tokio::sync::mpsc;

struct ThreadWaker(std::thread::Thread);
impl std::task::Wake for ThreadWaker {
    fn wake(self: std::sync::Arc<Self>) {
        self.0.unpark();
    }
}

#[test]
fn stress_writer_vs_ack() {
    let n: u64 = std::env::var("HUNT_N").ok().and_then(|s| s.parse().ok()).unwrap_or(2_000_000);
    let (rx_frame_tx, rx_frame_rx) = mpsc::channel(4);
    let (tx_msg_tx, mut tx_msg_rx) = mpsc::unbounded_channel();
    let (dropped_flows_tx, _dropped_rx) = mpsc::unbounded_channel();
    let finish_sent = Arc::new(AtomicBool::new(false));
    let psh_send_remaining = Arc::new(AtomicU32::new(1));
    let writer_waker = Arc::new(AtomicWaker::new());
    let data = EstablishedStreamData {
        sender: Some(rx_frame_tx.clone()),
        finish_sent: finish_sent.clone(),
        psh_send_remaining: psh_send_remaining.clone(),
        writer_waker: writer_waker.clone(),
    };
    let stream = MuxStream {
        rx_frame_rx,
        flow_id: 1,
        dest_host: Bytes::new(),
        dest_port: 0,
        finish_sent,
        psh_send_remaining,
        psh_recvd_since: 0,
        writer_waker,
        buf: Bytes::new(),
        tx_msg_tx,
        dropped_flows_tx,
        rwnd_threshold: 4,
    };
    let progress = std::sync::Arc::new(std::sync::atomic::AtomicU64::new(0));
    let p2 = progress.clone();
    let acker = std::thread::spawn(move || {
        let mut got = 0u64;
        while got < n {
            // spin: keep the race window tight
            match tx_msg_rx.try_recv() {
                Ok(_) => {
                    got += 1;
                    data.acknowledge(1);
                }
                Err(_) => std::hint::spin_loop(),
            }
        }
        // finally close: the writer's (n+1)th write must fail, not hang
        data.disallow_write();
        data
    });
    let writer = std::thread::spawn(move || {
        let w = Waker::from(std::sync::Arc::new(ThreadWaker(std::thread::current())));
        let cx = Context::from_waker(&w);
        let mut sent = 0u64;
        loop {
            match stream.poll_write_push(&cx, b"x") {
                Poll::Ready(Some(())) => {
                    sent += 1;
                    p2.store(sent, std::sync::atomic::Ordering::Relaxed);
                }
                Poll::Ready(None) => break,
                Poll::Pending => std::thread::park(),
            }
        }
        sent
    });
    // watchdog
    let mut last = 0;
    let mut stalls = 0;
    while !writer.is_finished() {
        std::thread::sleep(std::time::Duration::from_millis(500));
        let now = progress.load(std::sync::atomic::Ordering::Relaxed);
        if now == last && !writer.is_finished() {
            stalls += 1;
            assert!(stalls < 10, "writer stalled at {now} of {n}");
        } else {
            stalls = 0;
        }
        last = now;
    }
    let sent = writer.join().unwrap();
    let _ = acker.join().unwrap();
    assert!(sent == n || sent == n + 1, "sent {sent}");
}
