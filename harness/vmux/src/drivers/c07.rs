//! C07 — stream opening: one request, one stream, correct target, disciplined flow ids.

use super::c05::push_viol;
use super::common::{Case, Plan, run_cases};
use crate::Args;
use crate::apps::{EndPlan, Ev, Op, SideCfg, Tag, World, opts};
use crate::codec::RFrame;
use crate::explore::{Cost, RunOutput, choose_n};
use crate::link::UNBOUNDED_CAP;
use crate::raw::{RMsg, Raw};
use crate::report::Report;
use crate::sim::{Fnv, Step};
use crate::wiremon::WireMon;
use std::collections::BTreeMap;
use std::time::Duration;

const W_ZERO_SKIPPED: u64 = 1;
const W_LIVE_SKIPPED: u64 = 2;
const W_COLLISION: u64 = 4;
const W_REJECTED_GAVE_UP: u64 = 8;
const W_RETRY_SUCCEEDED: u64 = 16;
const W_PEER_REOPENED_REJECTED_ID: u64 = 1 << 12;
const W_ALL_PAIRED: u64 = 32;

#[derive(Clone, Debug)]
struct Req {
    tag: Tag,
    side: usize,
    host: Vec<u8>,
    port: u16,
}

#[derive(Clone, Debug)]
struct Scn {
    name: &'static str,
    rng: [Vec<u32>; 2],
    retries: usize,
    rwnd: [u32; 2],
    reqs: Vec<Req>,
    /// number of tasks of each accepting side that wait in `accept_stream_channel` at the same time; with more than
    /// one, every task takes exactly one stream
    acceptors: usize,
    /// stream_buffer_size of both sides (0 = the default): how many established streams wait for `accept_stream_channel`
    accept_buf: usize,
}

fn opener_plan() -> EndPlan {
    EndPlan::Seq(vec![Op::W(2), Op::Shutdown, Op::ReadToEof(4)])
}
fn acceptor_plan() -> EndPlan {
    EndPlan::Seq(vec![Op::ReadToEof(4), Op::W(1), Op::Shutdown])
}

fn scenarios(thorough: bool) -> Vec<Scn> {
    let h255: Vec<u8> = (0..255u32).map(|i| 0x80 | (i as u8 & 0x7f)).collect();
    let mut v = vec![
        Scn { acceptors: 1, accept_buf: 0, name: "first draw is 0", rng: [vec![0, 1], vec![]], retries: 3, rwnd: [2, 3], reqs: vec![Req { tag: 1, side: 0, host: b"a".to_vec(), port: 1 }] },
        Scn {
            acceptors: 1, accept_buf: 0,
            name: "draw equal to a live flow (two concurrent opens on A, one on B)",
            rng: [vec![1, 1, 2, 0, 3], vec![1, 2, 4]],
            retries: 3,
            rwnd: [3, 1],
            reqs: vec![
                Req { tag: 1, side: 0, host: b"".to_vec(), port: 0 },
                Req { tag: 2, side: 0, host: b"a".to_vec(), port: 65535 },
                Req { tag: 3, side: 1, host: vec![0xff, 0x80], port: 1 },
            ],
        },
        Scn {
            acceptors: 1, accept_buf: 0,
            name: "hosts and ports",
            rng: [vec![], vec![]],
            retries: 3,
            rwnd: [1, 2],
            reqs: vec![
                Req { tag: 1, side: 0, host: vec![], port: 0 },
                Req { tag: 2, side: 0, host: h255.clone(), port: 65535 },
                Req { tag: 3, side: 1, host: vec![0x00, 0xff, b'/', b':'], port: 1 },
            ],
        },
        // more requests at once than the accept queue holds; the application accepts one stream after the other
        Scn {
            acceptors: 1,
            accept_buf: 1,
            name: "four opens at once into an accept queue of one",
            rng: [vec![], vec![]],
            retries: 3,
            rwnd: [2, 2],
            reqs: (0..4u8).map(|i| Req { tag: i + 1, side: 0, host: vec![b'Q', i], port: 200 + u16::from(i) }).collect(),
        },
        // a Connect's host has no length octet: it runs to the end of the frame and may be longer than the 255 octets
        // the Bind and Datagram layouts can carry
        Scn {
            acceptors: 1, accept_buf: 0,
            name: "hosts longer than 255 octets",
            rng: [vec![], vec![]],
            retries: 3,
            rwnd: [2, 1],
            reqs: vec![
                Req { tag: 1, side: 0, host: (0..256u32).map(|i| i as u8).collect(), port: 443 },
                Req { tag: 2, side: 0, host: (0..300u32).map(|i| (i % 7) as u8 | 0x40).collect(), port: 0 },
                Req { tag: 3, side: 1, host: (0..65_541u32).map(|i| (i % 251) as u8).collect(), port: 65535 },
            ],
        },
    ];
    for retries in if thorough { vec![1usize, 2, 3] } else { vec![1usize, 3] } {
        v.push(Scn {
            acceptors: 1, accept_buf: 0,
            name: "both sides open at the same moment with the same id",
            rng: [vec![1, 2, 5], vec![1, 3, 6]],
            retries,
            rwnd: [2, 2],
            reqs: vec![Req { tag: 1, side: 0, host: b"A".to_vec(), port: 10 }, Req { tag: 2, side: 1, host: b"B".to_vec(), port: 20 }],
        });
        v.push(Scn {
            acceptors: 1, accept_buf: 0,
            name: "same id twice in a row on both sides",
            rng: [vec![1, 2, 5], vec![1, 2, 6]],
            retries,
            rwnd: [2, 3],
            reqs: vec![Req { tag: 1, side: 0, host: b"A".to_vec(), port: 10 }, Req { tag: 2, side: 1, host: b"B".to_vec(), port: 20 }],
        });
    }
    // the accepting application has several tasks waiting for streams (a worker pool): every stream that comes up
    // still has to reach one of them
    for n in if thorough { vec![2usize, 3] } else { vec![2usize] } {
        v.push(Scn {
            acceptors: n, accept_buf: 0,
            name: if n == 2 { "two tasks waiting in accept_stream_channel, the peer opens two streams" } else { "three tasks waiting in accept_stream_channel, the peer opens three streams" },
            rng: [vec![], vec![]],
            retries: 3,
            rwnd: [2, 2],
            reqs: (0..n).map(|i| Req { tag: i as u8 + 1, side: 0, host: vec![b'P', i as u8], port: 100 + i as u16 }).collect(),
        });
    }
    if thorough {
        v.push(Scn {
            acceptors: 1, accept_buf: 0,
            name: "two opens per side, colliding ids",
            rng: [vec![1, 2, 1, 3, 7], vec![2, 1, 4, 5, 8]],
            retries: 2,
            rwnd: [2, 2],
            reqs: vec![
                Req { tag: 1, side: 0, host: b"A1".to_vec(), port: 1 },
                Req { tag: 2, side: 0, host: b"A2".to_vec(), port: 2 },
                Req { tag: 3, side: 1, host: b"B1".to_vec(), port: 3 },
                Req { tag: 4, side: 1, host: b"B2".to_vec(), port: 4 },
            ],
        });
    }
    v
}

fn exec_two(sc: &Scn, render: bool) -> RunOutput {
    let mut a = SideCfg { opts: opts(sc.rwnd[0], 1).max_flow_id_retries(sc.retries), rng: sc.rng[0].clone() };
    let mut b = SideCfg { opts: opts(sc.rwnd[1], 1).max_flow_id_retries(sc.retries), rng: sc.rng[1].clone() };
    if sc.accept_buf > 0 {
        a.opts = a.opts.stream_buffer_size(sc.accept_buf);
        b.opts = b.opts.stream_buffer_size(sc.accept_buf);
    }
    let mut w = World::two(UNBOUNDED_CAP, &a, &b);
    for side in 0..2 {
        let table: BTreeMap<(Vec<u8>, u16), (Tag, EndPlan)> = sc.reqs.iter().filter(|r| r.side != side).map(|r| ((r.host.clone(), r.port), (r.tag, acceptor_plan()))).collect();
        if !table.is_empty() {
            // accept as many as could possibly arrive; it is fine if fewer do (rejected requests)
            if sc.acceptors <= 1 {
                w.spawn_acceptor_by(side, usize::MAX, table);
            } else {
                for k in 0..sc.acceptors {
                    w.spawn_acceptor_by_named(side, &format!("{}", k + 1), 1, table.clone());
                }
            }
        }
    }
    for r in &sc.reqs {
        w.spawn_opener(r.side, r.tag, r.host.clone(), r.port, opener_plan());
    }
    let mut mon = WireMon::new();
    mon.expect_rwnd = [Some(sc.rwnd[0]), Some(sc.rwnd[1])];
    let mut viol: Vec<(String, String)> = Vec::new();
    let mut fps = Vec::new();
    let mut wit = 0u64;
    let mut seen_ev = 0usize;
    let mut horizon = false;
    let mut frames_seen = 0usize;
    let mut half_released: Vec<(usize, u32)> = Vec::new();
    let mut half_released_tags: Vec<Tag> = Vec::new();
    loop {
        if w.sim.steps >= 4000 {
            horizon = true;
            break;
        }
        let en = w.sim.enabled();
        if en.is_empty() {
            break;
        }
        let c = choose_n(en.len(), Cost::Sched);
        let step: Step = en[c].clone();
        let item = w.sim.apply(&step);
        {
            let l = w.sim.link.lock();
            mon.absorb(&l);
        }
        if let (Step::Deliver(d), Some(it)) = (&step, item.as_ref()) {
            mon.on_delivered(*d, it);
        }
        for v in mon.violations.drain(..) {
            push_viol(&mut viol, &v.key, v.desc);
        }
        let obs = w.obs.borrow();
        // initial credit == window advertised by the other side, observed at the moment the stream is handed out
        for e in &obs.events[seen_ev..] {
            let (tag, side) = match e {
                Ev::OpenOk { tag, side } | Ev::Accepted { tag, side, .. } => (*tag, *side),
                _ => continue,
            };
            if let (Some(fid), Some(mux)) = (obs.flow_ids.get(&(tag, side)), w.mux[side].as_ref()) {
                if let Some(f) = mux.verif_flow_digest().into_iter().find(|f| f.id == *fid) {
                    if f.kind != 1 || f.credit != sc.rwnd[1 - side] {
                        push_viol(&mut viol, "open.initial-credit", format!("stream {tag} handed out on side {side} with send credit {} (slot kind {}), the other side advertised {}", f.credit, f.kind, sc.rwnd[1 - side]));
                    }
                } else {
                    push_viol(&mut viol, "open.no-slot", format!("stream {tag} handed out on side {side} but its flow {fid:#x} is not in the table"));
                }
            }
        }
        seen_ev = obs.events.len();
        // a Connect put on the wire by this very step whose id the OTHER side still holds an established flow on:
        // the proposer released the id (its application dropped the stream) while the peer has not; frames of the old
        // flow may cross the Connect (finding F1, see DESIGN.md 9.4)
        if mon.frames.len() > frames_seen {
            for (side, f) in &mon.frames[frames_seen..] {
                if let RFrame::Connect { id, host, .. } = f {
                    if let Some(peer) = w.mux[1 - *side].as_ref() {
                        if peer.verif_flow_digest().iter().any(|d| d.id == *id && d.kind == 1) {
                            half_released.push((*side, *id));
                            if let Some(r) = sc.reqs.iter().find(|r| r.side == *side && &r.host == host) {
                                half_released_tags.push(r.tag);
                            }
                        }
                    }
                }
            }
            frames_seen = mon.frames.len();
        }
        // an endpoint never proposes an id its application still holds a stream on
        if let Some((side, RFrame::Connect { id, .. })) = mon.frames.last() {
            if matches!(step, Step::Poll(_)) {
                let live = obs.flow_ids.iter().any(|((t, s), f)| s == side && f == id && !obs.events.iter().any(|e| matches!(e, Ev::Dropped { tag, side: s2 } if tag == t && s2 == s)) && {
                    // the stream of this very request is not "already in use"
                    let req = sc.reqs.iter().find(|r| r.tag == *t);
                    let this_connect_host = mon.flows.get(id).map(|fl| fl.host.clone());
                    req.is_none_or(|r| Some(&r.host) != this_connect_host.as_ref())
                });
                if live {
                    push_viol(&mut viol, "connect.live-id", format!("side {side} proposed flow id {id} while its application holds a stream on that id"));
                }
            }
        }
        let mut h = Fnv::default();
        for side in 0..2 {
            if let Some(m) = w.mux[side].as_ref() {
                for f in m.verif_flow_digest() {
                    h.u64(u64::from(f.id));
                    h.u64(u64::from(f.credit));
                    h.byte(f.kind | u8::from(f.finish_sent) << 2 | u8::from(f.read_open) << 3);
                    h.u64(f.queued as u64);
                }
            }
            h.byte(0xaa);
        }
        h.u64(obs.events.len() as u64);
        {
            let l = w.sim.link.lock();
            for d in 0..2 {
                h.u64(l.dirs[d].inflight.len() as u64);
                h.u64(l.dirs[d].ready.len() as u64);
            }
        }
        for (i, t) in w.sim.tasks.iter().enumerate() {
            h.byte(u8::from(t.done) | u8::from(w.sim.is_runnable(i)) << 1);
        }
        fps.push(h.0);
    }
    // ---- end of execution
    let obs = w.obs.borrow();
    if horizon {
        push_viol(&mut viol, "livelock", "step horizon reached".into());
    }
    for side in 0..2 {
        if sc.rng[side].first() == Some(&0) && w.rng_draws[side].borrow().first() == Some(&0) {
            wit |= W_ZERO_SKIPPED;
        }
    }
    let connects = |side: usize, host: &[u8]| mon.frames.iter().filter(|(s, f)| *s == side && matches!(f, RFrame::Connect { host: h, .. } if h == host)).count();
    let mut all_paired = true;
    for r in &sc.reqs {
        let ok = obs.events.iter().any(|e| matches!(e, Ev::OpenOk { tag, side } if *tag == r.tag && *side == r.side));
        let err = obs.events.iter().find_map(|e| if let Ev::OpenErr { tag, side, err } = e { (*tag == r.tag && *side == r.side).then(|| err.clone()) } else { None });
        let accepted: Vec<&Ev> = obs.events.iter().filter(|e| matches!(e, Ev::Accepted { tag, side, .. } if *tag == r.tag && *side == 1 - r.side)).collect();
        let n_conn = connects(r.side, &r.host);
        if n_conn > 1 {
            wit |= W_COLLISION;
        }
        if ok {
            if n_conn > 1 {
                wit |= W_RETRY_SUCCEEDED;
            }
            if accepted.len() != 1 {
                all_paired = false;
                push_viol(&mut viol, "open.pairing", format!("request {} (host {:02x?}, port {}) succeeded on side {} but the peer application accepted {} stream(s) for it", r.tag, &r.host[..r.host.len().min(8)], r.port, r.side, accepted.len()));
            }
            for e in &accepted {
                if let Ev::Accepted { host, port, .. } = e {
                    if host != &r.host || *port != r.port {
                        push_viol(&mut viol, "open.target", format!("request {}: accepted stream shows host {:02x?} port {port}, requested {:02x?} port {}", r.tag, &host[..host.len().min(8)], &r.host[..r.host.len().min(8)], r.port));
                    }
                }
            }
            // the stream works and is the right one (payload is tagged)
            for dir in 0..2u8 {
                let d = obs.dirs.get(&(r.tag, dir)).cloned().unwrap_or_default();
                if !(d.shutdown && d.eof && d.read == d.written && !d.written.is_empty()) {
                    all_paired = false;
                    push_viol(&mut viol, "open.stream-broken", format!("request {}: stream direction {dir} did not carry its data end to end: written {:02x?} read {:02x?} shutdown={} eof={}", r.tag, d.written, d.read, d.shutdown, d.eof));
                }
            }
        } else if let Some(err) = err {
            all_paired = false;
            if !accepted.is_empty() {
                // an Acknowledge may be on its way for an attempt that was then rejected: a stream accepted for a failed request is only
                // acceptable if its peer (the requester) reset it
                let fids: Vec<u32> = obs.flow_ids.iter().filter(|((t, s), _)| *t == r.tag && *s == 1 - r.side).map(|(_, f)| *f).collect();
                let reset_by_requester = fids.iter().all(|f| mon.frames.iter().any(|(s, fr)| *s == r.side && matches!(fr, RFrame::Reset { id } if id == f)));
                if !reset_by_requester {
                    push_viol(&mut viol, "open.orphan-stream", format!("request {} failed with {err} on side {} but the peer application holds a stream for it that was never reset", r.tag, r.side));
                }
            }
            if err.contains("FlowIdRejected") {
                wit |= W_REJECTED_GAVE_UP;
                if n_conn != sc.retries {
                    push_viol(&mut viol, "open.retry-count", format!("request {} gave up with FlowIdRejected after {n_conn} Connect frames; max_flow_id_retries is {}", r.tag, sc.retries));
                }
            } else {
                push_viol(&mut viol, "open.error", format!("request {} on side {} failed with {err} although the connection is up", r.tag, r.side));
            }
        } else {
            all_paired = false;
            push_viol(&mut viol, "open.pending", format!("request {} on side {} never resolved", r.tag, r.side));
        }
        if n_conn > sc.retries {
            push_viol(&mut viol, "open.too-many-attempts", format!("request {}: {n_conn} Connect frames, max_flow_id_retries is {}", r.tag, sc.retries));
        }
    }
    if all_paired {
        wit |= W_ALL_PAIRED;
    }
    // no stream appears that nobody asked for
    for e in &obs.events {
        if let Ev::Accepted { tag: 0xff, host, port, side } = e {
            push_viol(&mut viol, "open.phantom", format!("side {side} accepted a stream nobody requested (host {host:02x?} port {port})"));
        }
    }
    // every rejected Connect got exactly one Reset from the rejecting side (counted over the whole run)
    for side in 0..2 {
        let live_draw = w.rng_draws[side].borrow().len() > sc.reqs.iter().filter(|r| r.side == side).map(|r| connects(side, &r.host)).sum::<usize>();
        if live_draw && sc.name.contains("live flow") {
            wit |= W_LIVE_SKIPPED;
        }
    }
    let pend: Vec<String> = obs.pending().into_iter().filter(|n| !n.starts_with("accept")).collect();
    if !pend.is_empty() && !horizon {
        push_viol(&mut viol, "stall", format!("quiescent with unfinished futures {pend:?}"));
    }
    if pend.is_empty() {
        for side in 0..2 {
            if let Some(m) = w.mux[side].as_ref() {
                let dig = m.verif_flow_digest();
                if !dig.is_empty() {
                    push_viol(&mut viol, "leak.flow-table", format!("all streams done and dropped, side {side} still holds {dig:?}"));
                }
            }
        }
    }
    for t in &w.sim.tasks {
        if let Some(p) = &t.panicked {
            push_viol(&mut viol, "panic", format!("{} panicked: {p}", t.name));
        }
    }
    for side in 0..2 {
        if w.task_done(side) {
            push_viol(&mut viol, "task.ended", format!("connection task {side} ended: {:?}", w.task_result[side].borrow()));
        }
    }
    if let (Some((side, id)), false) = (half_released.first(), viol.is_empty()) {
        // What finding F1 is known to cause (a stale flow-control Acknowledge of the old flow adopted as the handshake
        // answer: wrong initial credit, and the wire monitor's per-id accounting mixes the two generations) is reported
        // under ONE specific key, so that the known-findings entry cannot hide anything else: every other violation in
        // such an execution keeps its own key.
        const F1_SIGNATURE: [&str; 3] = ["handshake.ack-rwnd", "open.initial-credit", "ack.unreceived"];
        // ... and, for the very request whose Connect re-used the half-released id: it "succeeds" on the stale
        // Acknowledge, then the peer rejects its Connect (the id is in use there), so it pairs with no accepted stream
        // and carries no data
        let is_f1 = |k: &str, d: &str| {
            F1_SIGNATURE.contains(&k) || (matches!(k, "open.pairing" | "open.stream-broken") && half_released_tags.iter().any(|t| d.starts_with(&format!("request {t} ")) || d.starts_with(&format!("request {t}:"))))
        };
        let consequences: Vec<String> = viol.iter().filter(|(k, d)| is_f1(k, d)).map(|(k, _)| k.clone()).collect();
        let first = viol.iter().find(|(k, d)| is_f1(k, d)).map(|(_, d)| d.clone()).unwrap_or_default();
        viol.retain(|(k, d)| !is_f1(k, d));
        if !consequences.is_empty() {
            push_viol(&mut viol, "reuse.half-released-id", format!("side {side} proposed flow id {id:#x} again after releasing it while side {} still held the old flow on that id; frames of the old flow that crossed the Connect were taken for the new request (consequences: {consequences:?}; first: {first})", 1 - side));
        }
    }
    let mut h = Fnv::default();
    for e in &obs.events {
        h.str(&format!("{e:?}"));
    }
    for (s, f) in &mon.frames {
        if matches!(f, RFrame::Connect { .. } | RFrame::Reset { .. }) {
            h.byte(*s as u8);
            h.u64(u64::from(f.id()));
            h.byte(f.op());
        }
    }
    drop(obs);
    let out = RunOutput { blocked: false, steps: w.sim.steps, fingerprints: fps, outcome: h.0, violations: viol, witnesses: wit, horizon, rendering: render.then(|| w.sim.render_log().join(" ")) };
    w.sim.teardown();
    out
}

/// Raw peer that rejects the first `reject` Connects and (if `then_accept`) acknowledges the next one.
fn exec_raw(retries: usize, reject: usize, then_accept: bool, reopen: bool, script: &[u32], render: bool) -> RunOutput {
    let cfg = SideCfg { opts: opts(2, 1).max_flow_id_retries(retries), rng: script.to_vec() };
    let mut w = World::one(UNBOUNDED_CAP, 0, &cfg);
    let mut raw = Raw::new(1, w.sim.link.clone());
    w.spawn_opener(0, 1, b"x".to_vec(), 5, EndPlan::Seq(vec![Op::W(1), Op::Shutdown]));
    // `reopen`: right behind its first rejection the peer opens a stream of its own on the very id it has just rejected
    const PEER_TAG: u8 = 9;
    let mut reopened: Option<u32> = None;
    if reopen {
        let mut plans = BTreeMap::new();
        plans.insert(PEER_TAG, EndPlan::Seq(vec![Op::ReadToEof(4), Op::W(1), Op::Shutdown]));
        w.spawn_acceptor(0, 1, plans);
    }
    let mut viol: Vec<(String, String)> = Vec::new();
    let mut fps = Vec::new();
    let mut wit = 0;
    let mut rejected = 0usize;
    let mut connect_ids: Vec<u32> = Vec::new();
    loop {
        if w.sim.steps > 3000 {
            push_viol(&mut viol, "livelock", "horizon".into());
            break;
        }
        let en = w.sim.enabled();
        if en.is_empty() {
            break;
        }
        let c = choose_n(en.len(), Cost::Sched);
        let s = en[c].clone();
        w.sim.apply(&s);
        for m in raw.pump() {
            if let RMsg::Frame(RFrame::Connect { id, rwnd, .. }) = m {
                connect_ids.push(id);
                if id == 0 {
                    push_viol(&mut viol, "connect.id0", "endpoint proposed flow id 0".into());
                }
                if rwnd != 2 {
                    push_viol(&mut viol, "handshake.connect-rwnd", format!("Connect advertises {rwnd}, configured 2"));
                }
                if rejected < reject {
                    rejected += 1;
                    raw.send(&RFrame::Reset { id });
                    if reopen && reopened.is_none() {
                        reopened = Some(id);
                        raw.send(&RFrame::Connect { id, rwnd: 2, port: 9, host: vec![PEER_TAG] });
                        let data = crate::apps::payload(PEER_TAG, 1, 0, 2);
                        raw.send(&RFrame::Push { id, data: data.clone() });
                        w.obs.borrow_mut().dir(PEER_TAG, 0).written.extend(&data);
                        raw.send(&RFrame::Finish { id });
                    }
                } else if then_accept {
                    raw.send(&RFrame::Acknowledge { id, n: 3 });
                }
            }
        }
        let mut h = Fnv::default();
        if let Some(m) = w.mux[0].as_ref() {
            for f in m.verif_flow_digest() {
                h.u64(u64::from(f.id));
                h.byte(f.kind);
            }
        }
        h.u64(raw.got.len() as u64);
        h.u64(w.obs.borrow().events.len() as u64);
        fps.push(h.0);
    }
    let obs = w.obs.borrow();
    let ok = obs.events.iter().any(|e| matches!(e, Ev::OpenOk { .. }));
    let err = obs.events.iter().find_map(|e| if let Ev::OpenErr { err, .. } = e { Some(err.clone()) } else { None });
    let expect_ok = then_accept && reject < retries;
    if expect_ok {
        if !ok {
            push_viol(&mut viol, "retry.should-succeed", format!("peer rejected {reject} proposals then accepted; with max_flow_id_retries={retries} the request must succeed; got {err:?}, Connect ids {connect_ids:?}"));
        } else {
            if reject > 0 {
                wit |= W_RETRY_SUCCEEDED;
            }
            if connect_ids.len() != reject + 1 {
                push_viol(&mut viol, "open.retry-count", format!("{} Connect frames for {reject} rejections + 1 acceptance", connect_ids.len()));
            }
        }
    } else if reject >= retries {
        match &err {
            Some(e) if e.contains("FlowIdRejected") => wit |= W_REJECTED_GAVE_UP,
            other => push_viol(&mut viol, "retry.should-give-up", format!("every proposal rejected; expected FlowIdRejected after {retries} attempts, got {other:?} (ok={ok})")),
        }
        if connect_ids.len() != retries {
            push_viol(&mut viol, "open.retry-count", format!("always rejected: {} Connect frames, max_flow_id_retries is {retries} (ids {connect_ids:?})", connect_ids.len()));
        }
        if let Some(m) = w.mux[0].as_ref() {
            let dig = m.verif_flow_digest();
            if !dig.is_empty() {
                push_viol(&mut viol, "leak.flow-table", format!("request failed, table still holds {dig:?}"));
            }
        }
    }
    if connect_ids.len() > 1 {
        wit |= W_COLLISION;
    }
    if let Some(id) = reopened {
        // the stream the peer opened on the id it had just rejected is a stream like any other
        let d = obs.dirs.get(&(PEER_TAG, 0)).cloned().unwrap_or_default();
        if d.read != d.written || !d.eof {
            push_viol(&mut viol, "reopen.peer-stream-disturbed", format!("the peer rejected Connect({id}) and at once opened its own stream on flow {id}; the accepting application read {:02x?} (eof={}) of {:02x?} + Finish", d.read, d.eof, d.written));
        }
        let resets = raw.frames().filter(|f| matches!(f, RFrame::Reset { id: i } if *i == id)).count();
        if resets > 0 {
            push_viol(&mut viol, "reopen.peer-stream-reset", format!("the endpoint sent {resets} Reset({id}) although the peer's own stream on that id did nothing wrong"));
        }
        if !raw.frames().any(|f| matches!(f, RFrame::Finish { id: i } if *i == id)) {
            push_viol(&mut viol, "reopen.peer-stream-disturbed", format!("the accepting application answered and shut down, but no Finish({id}) reached the peer"));
        }
        wit |= W_PEER_REOPENED_REJECTED_ID;
    }
    for t in &w.sim.tasks {
        if let Some(p) = &t.panicked {
            push_viol(&mut viol, "panic", format!("{} panicked: {p}", t.name));
        }
    }
    let mut h = Fnv::default();
    h.str(&format!("{connect_ids:?} {ok} {err:?}"));
    drop(obs);
    let out = RunOutput { blocked: false, steps: w.sim.steps, fingerprints: fps, outcome: h.0, violations: viol, witnesses: wit, horizon: false, rendering: render.then(|| format!("{:?}", raw.got)) };
    w.sim.teardown();
    out
}

pub fn run(args: &Args) -> Report {
    let mut rep = Report::new("C07", &args.tier, "psim", "model_checking");
    let thorough = args.thorough();
    let mut cases = Vec::new();
    for sc in scenarios(thorough) {
        let label = format!("{} | retries={} rngA={:?} rngB={:?} rwnd={:?} requests={}", sc.name, sc.retries, sc.rng[0], sc.rng[1], sc.rwnd, sc.reqs.len());
        cases.push(Case { try_unbounded: false, max_k: u32::MAX, label, exec: Box::new(move |r| exec_two(&sc, r)) });
    }
    // the same scenarios with accepting applications that wait inside a select-like loop: a fresh accept_stream_channel
    // future for every poll, dropped when it is not ready (the call is documented as cancel safe; the penguin server
    // uses it so). Only with ONE accepting task per side: several tasks that each drop and re-create their wait share
    // the receiver's single waker slot, the registration of the one that polled last wins, and a stream arriving later
    // wakes nobody else; that is the contract of the underlying channel (tokio's mpsc receiver remembers one waker)
    // and not something the statement promises (see DESIGN 9.5)
    for sc in scenarios(thorough).into_iter().filter(|sc| sc.acceptors == 1) {
        let label = format!("{} | retries={} rngA={:?} rngB={:?} rwnd={:?} requests={} | acceptors re-create their accept future at every poll", sc.name, sc.retries, sc.rng[0], sc.rng[1], sc.rwnd, sc.reqs.len());
        cases.push(Case {
            try_unbounded: false,
            max_k: if thorough { u32::MAX } else { 1 },
            label,
            exec: Box::new(move |r| {
                let _restart = crate::apps::RestartWaits::set(true);
                exec_two(&sc, r)
            }),
        });
    }
    // every draw script of length L over {0, 1, 2}: side 0 opens two streams at once, side 1 opens one with draws 1, 2
    // (ids collide across the sides, zero draws and draws of the side's own pending/live ids appear in every order)
    let l = if thorough { 5 } else { 4 };
    for code in 0..3u32.pow(l) {
        let script: Vec<u32> = (0..l).map(|i| code / 3u32.pow(i) % 3).collect();
        for with_b in [true, false] {
            if !with_b && !thorough && script[0] != 0 && script[1] != 0 {
                continue; // quick tier: the one-sided variant only for scripts with an early zero draw
            }
            let mut reqs = vec![Req { tag: 1, side: 0, host: b"A1".to_vec(), port: 1 }, Req { tag: 2, side: 0, host: b"A2".to_vec(), port: 2 }];
            if with_b {
                reqs.push(Req { tag: 3, side: 1, host: b"B".to_vec(), port: 3 });
            }
            let sc = Scn { acceptors: 1, accept_buf: 0, name: "enumerated draws", rng: [script.clone(), vec![1, 2]], retries: 3, rwnd: [2, 2], reqs };
            let label = format!("{} | retries=3 rngA={:?} rngB=[1, 2] requests={}", sc.name, sc.rng[0], sc.reqs.len());
            cases.push(Case { try_unbounded: false, max_k: if thorough { 2 } else { 1 }, label, exec: Box::new(move |r| exec_two(&sc, r)) });
        }
    }
    for retries in 1..=3usize {
        for reject in 0..=3usize {
            for then_accept in [false, true] {
                let mut scripts = vec![vec![4u32, 4, 4, 4], vec![0, 1, 0, 2, 3], vec![]];
                // every draw script of length 3 over {0, 4, 5}
                scripts.extend((0..27u32).map(|c| (0..3).map(|i| [0u32, 4, 5][(c / 3u32.pow(i) % 3) as usize]).collect::<Vec<u32>>()));
                for script in scripts {
                    let label = format!("raw peer rejects {reject} then {} | retries={retries} rng={script:?}", if then_accept { "accepts" } else { "stays silent" });
                    let sc2 = script.clone();
                    if !then_accept && reject < retries {
                        continue; // request legitimately pending forever
                    }
                    cases.push(Case { try_unbounded: false, max_k: u32::MAX, label: label.clone(), exec: Box::new(move |r| exec_raw(retries, reject, then_accept, false, &sc2, r)) });
                    if reject >= 1 && script.is_empty() {
                        // (only with a generator that never repeats itself: a scripted re-draw of the rejected id would be a
                        // legitimate simultaneous-open collision with the peer's own Connect)
                        let sc3 = script.clone();
                        cases.push(Case { try_unbounded: false, max_k: u32::MAX, label: format!("{label} | the peer opens its own stream on the id right behind its first rejection"), exec: Box::new(move |r| exec_raw(retries, reject, then_accept, true, &sc3, r)) });
                    }
                }
            }
        }
    }
    let plan = Plan {
        ks: if thorough { vec![0, 1, 2, 3, 4] } else { vec![0, 1, 2] },
        env: 0,
        fault: 0,
        total_wall: Duration::from_secs(if thorough { 1500 } else { 100 }),
        max_execs_per_case: 2_000_000,
        required_witnesses: W_ZERO_SKIPPED | W_LIVE_SKIPPED | W_COLLISION | W_REJECTED_GAVE_UP | W_RETRY_SUCCEEDED | W_ALL_PAIRED | W_PEER_REOPENED_REJECTED_ID,
        adaptive: thorough,
        witness_names: &[("zero_draw_skipped", W_ZERO_SKIPPED), ("live_id_draw_skipped", W_LIVE_SKIPPED), ("id_collision_and_retry", W_COLLISION), ("gave_up_with_FlowIdRejected", W_REJECTED_GAVE_UP), ("retry_succeeded", W_RETRY_SUCCEEDED), ("all_requests_paired", W_ALL_PAIRED), ("peer_reopened_the_id_it_rejected", W_PEER_REOPENED_REJECTED_ID)],
    };
    rep.rule = "psim: two real endpoints with scripted flow-id generators (first draw 0, draw of a live id, identical draws on both sides, repeated collisions; plus EVERY draw script of length 4 (thorough 5) over {0,1,2} for two simultaneous opens on one side against an opener drawing 1,2 on the other, and every script of length 3 over {0,4,5} against the raw peer), concurrent opens from both sides, hosts {empty, 255 bytes >= 0x80, binary, 256 / 300 / 65541 bytes} and ports {0,1,65535}, every schedule <= k deviations; plus a raw peer rejecting 0..3 proposals then accepting/silent (also: opening its own stream on the id right behind its first rejection, which must work like any other stream), for max_flow_id_retries 1..3. Oracle: successful requests pair 1:1 with accepted streams carrying exactly the requested host/port and tagged data end to end; send credit at hand-out equals the other side's window (hook); no Connect with id 0 / a live id on the wire; failures only as FlowIdRejected after exactly max_flow_id_retries Connects; nothing pending, tables empty at the end".into();
    rep.assumptions = vec!["allocation races inside one poll (two threads in insert_new_flow) are not visible at poll granularity; they are covered by the loom model m7 (run by this check as well)".into()];
    run_cases(args, &mut rep, cases, &plan);
    rep
}
