//! C17 demo 2: `--hostname host:port` makes every wss connection impossible, whatever
//! the certificate and even with `--tls-skip-verify`.
//!
//! `--hostname` sets the HTTP `Host` header, and (per its documentation) is also used
//! as the TLS server name unless `--tls-server-name` is given. A `Host` header
//! legitimately carries a port (penguin's own default `Host` for
//! `wss://127.0.0.1:1234` is `127.0.0.1:1234`), but the value is handed verbatim to
//! `ServerName::try_from`, so the client gives up with "unable to determine server
//! name for SNI" before sending a single TLS byte:
//! * verification on, certificate issued by the given root for the right name:
//!   the property says the client reaches the server; it does not;
//! * verification skipped: the property says any certificate is accepted; none is.
#![cfg(all(feature = "tls-rustls", feature = "client"))]
#![allow(clippy::pedantic, clippy::unwrap_used, missing_debug_implementations)]

use clap::Parser;
use rusty_penguin_lib::arg::{ClientArgs, Commands, PenguinCli};
use rusty_penguin_lib::client::{HandlerResources, client_main_inner};
use rusty_penguin_lib::tls::{init_crypto_provider, make_tls_identity};
use std::time::Duration;
use tokio::io::{AsyncBufReadExt, BufReader};

/// What the TLS server saw: (SNI, Host header)
async fn run_client_against_tls_listener(
    hostname: impl Fn(u16) -> String,
    trust: impl Fn(&str) -> Vec<String>,
) -> Result<(Option<String>, String), String> {
    init_crypto_provider();
    // A self-signed server certificate for `localhost`
    let dir = tempfile::tempdir().unwrap();
    let key = rcgen::KeyPair::generate().unwrap();
    let cert = rcgen::CertificateParams::new(vec!["localhost".to_string()])
        .unwrap()
        .self_signed(&key)
        .unwrap();
    let cert_path = dir.path().join("cert.pem").to_str().unwrap().to_string();
    let key_path = dir.path().join("key.pem").to_str().unwrap().to_string();
    std::fs::write(&cert_path, cert.pem()).unwrap();
    std::fs::write(&key_path, key.serialize_pem()).unwrap();
    let identity = make_tls_identity(&cert_path, &key_path, None)
        .await
        .unwrap();
    let acceptor = tokio_rustls::TlsAcceptor::from(identity.load_full());
    let listener = tokio::net::TcpListener::bind("127.0.0.1:0").await.unwrap();
    let port = listener.local_addr().unwrap().port();

    // The client, configured through the real command-line parser
    let mut argv = vec![
        "penguin".to_string(),
        "client".to_string(),
        format!("wss://127.0.0.1:{port}/ws"),
        "0:127.0.0.1:0".to_string(),
        "--max-retry-count=1".to_string(),
        "--max-retry-interval=1".to_string(),
        "--hostname".to_string(),
        hostname(port),
    ];
    argv.extend(trust(&cert_path));
    let cli = PenguinCli::try_parse_from(&argv).expect("a legal command line");
    let Commands::Client(args) = cli.subcommand else {
        unreachable!()
    };
    let args: &'static ClientArgs = Box::leak(Box::new(args));
    let (hr, stream_command_rx, datagram_rx) = HandlerResources::create();
    let hr: &'static HandlerResources = Box::leak(Box::new(hr));
    let mut client = tokio::spawn(client_main_inner(
        args,
        hr,
        stream_command_rx,
        datagram_rx,
    ));

    let server = async {
        let (tcp, _) = listener.accept().await.unwrap();
        let tls = acceptor
            .accept(tcp)
            .await
            .map_err(|e| format!("server side of the TLS handshake: {e}"))?;
        let sni = tls.get_ref().1.server_name().map(ToString::to_string);
        let mut lines = BufReader::new(tls).lines();
        while let Some(line) = lines.next_line().await.map_err(|e| e.to_string())? {
            if line.is_empty() {
                break;
            }
            if let Some(value) = line.to_lowercase().strip_prefix("host:") {
                return Ok((sni, value.trim().to_string()));
            }
        }
        Err("no Host header".to_string())
    };
    let result = tokio::select! {
        r = server => r,
        r = &mut client => Err(format!("client gave up: {:?}", r.unwrap())),
        () = tokio::time::sleep(Duration::from_secs(20)) => Err("timed out".to_string()),
    };
    client.abort();
    result
}

fn skip_verify(_cert: &str) -> Vec<String> {
    vec!["--tls-skip-verify".to_string()]
}
fn pinned_root(cert: &str) -> Vec<String> {
    vec!["--tls-ca".to_string(), cert.to_string()]
}

/// Control: without a port everything works (this is what the existing suite covers).
#[tokio::test]
async fn control_hostname_without_port() {
    let seen = run_client_against_tls_listener(|_| "localhost".to_string(), pinned_root).await;
    assert_eq!(
        seen,
        Ok((Some("localhost".to_string()), "localhost".to_string()))
    );
}

/// Valid chain, matching name, verification on: the client must reach the server.
#[tokio::test]
async fn hostname_with_port_verified() {
    let seen =
        run_client_against_tls_listener(|port| format!("localhost:{port}"), pinned_root).await;
    let (sni, _host) = seen.expect("a trusted certificate for `localhost` must be accepted");
    assert_eq!(sni.as_deref(), Some("localhost"));
}

/// Verification skipped: any certificate must be accepted.
#[tokio::test]
async fn hostname_with_port_skip_verify() {
    let seen =
        run_client_against_tls_listener(|port| format!("localhost:{port}"), skip_verify).await;
    let (sni, _host) = seen.expect("skip-verify must accept any certificate");
    assert_eq!(sni.as_deref(), Some("localhost"));
}
