//! Shared harness for the C15 review: a hand-driven in-memory WebSocket pair and a scripted RNG.
#![allow(dead_code)]

use penguin_mux::ws::{Message, WebSocket};
use std::collections::VecDeque;
use std::convert::Infallible;
use std::sync::{Arc, Mutex};
use std::task::{Context, Poll, Waker};

/// One direction of the link.
#[derive(Default)]
pub struct Dir {
    /// Sent by the writer, not yet delivered to the reader
    pub held: VecDeque<Message>,
    /// Delivered to the reader, not yet read
    pub inbox: VecDeque<Result<Message, ()>>,
    /// Reader sees end of stream once `inbox` is empty
    pub eof: bool,
    /// Everything the writer ever sent (for inspection)
    pub log: Vec<Message>,
    pub waker: Option<Waker>,
    /// deliver automatically (no holding)
    pub auto: bool,
}

pub type Link = Arc<Mutex<Dir>>;

pub struct Sock {
    pub tx: Link,
    pub rx: Link,
    pub closed: bool,
}

pub fn pair() -> (Sock, Sock, Link, Link) {
    let a2b: Link = Arc::default();
    let b2a: Link = Arc::default();
    (
        Sock {
            tx: a2b.clone(),
            rx: b2a.clone(),
            closed: false,
        },
        Sock {
            tx: b2a.clone(),
            rx: a2b.clone(),
            closed: false,
        },
        a2b,
        b2a,
    )
}

/// Move up to `n` held messages to the reader. Returns the number moved.
pub fn deliver(link: &Link, n: usize) -> usize {
    let mut d = link.lock().unwrap();
    let mut moved = 0;
    while moved < n {
        let Some(m) = d.held.pop_front() else { break };
        let is_close = matches!(m, Message::Close);
        d.inbox.push_back(Ok(m));
        moved += 1;
        if is_close {
            d.eof = true;
        }
    }
    if let Some(w) = d.waker.take() {
        w.wake();
    }
    moved
}

pub fn held_len(link: &Link) -> usize {
    link.lock().unwrap().held.len()
}

pub fn inject(link: &Link, item: Result<Message, ()>) {
    let mut d = link.lock().unwrap();
    d.inbox.push_back(item);
    if let Some(w) = d.waker.take() {
        w.wake();
    }
}

pub fn set_eof(link: &Link) {
    let mut d = link.lock().unwrap();
    d.eof = true;
    if let Some(w) = d.waker.take() {
        w.wake();
    }
}

#[derive(Debug)]
pub struct InjectedError;
impl std::fmt::Display for InjectedError {
    fn fmt(&self, f: &mut std::fmt::Formatter<'_>) -> std::fmt::Result {
        write!(f, "injected transport error")
    }
}
impl std::error::Error for InjectedError {}

impl WebSocket for Sock {
    fn poll_ready_unpin(&mut self, _cx: &mut Context<'_>) -> Poll<Result<(), penguin_mux::Error>> {
        if self.closed {
            Poll::Ready(Err(penguin_mux::Error::Closed))
        } else {
            Poll::Ready(Ok(()))
        }
    }
    fn start_send_unpin(&mut self, item: Message) -> Result<(), penguin_mux::Error> {
        if self.closed {
            return Err(penguin_mux::Error::Closed);
        }
        let mut d = self.tx.lock().unwrap();
        d.log.push(item.clone());
        d.held.push_back(item);
        if d.auto {
            drop(d);
            deliver(&self.tx, usize::MAX);
        }
        Ok(())
    }
    fn poll_flush_unpin(&mut self, _cx: &mut Context<'_>) -> Poll<Result<(), penguin_mux::Error>> {
        Poll::Ready(Ok(()))
    }
    fn poll_close_unpin(&mut self, _cx: &mut Context<'_>) -> Poll<Result<(), penguin_mux::Error>> {
        if !self.closed {
            self.closed = true;
            let mut d = self.tx.lock().unwrap();
            d.log.push(Message::Close);
            d.held.push_back(Message::Close);
            if d.auto {
                drop(d);
                deliver(&self.tx, usize::MAX);
            }
        }
        Poll::Ready(Ok(()))
    }
    fn poll_next_unpin(
        &mut self,
        cx: &mut Context<'_>,
    ) -> Poll<Option<Result<Message, penguin_mux::Error>>> {
        let mut d = self.rx.lock().unwrap();
        if let Some(item) = d.inbox.pop_front() {
            return Poll::Ready(Some(item.map_err(|()| {
                penguin_mux::Error::WebSocket(Box::new(InjectedError))
            })));
        }
        if d.eof {
            return Poll::Ready(None);
        }
        d.waker = Some(cx.waker().clone());
        Poll::Pending
    }
}

/// RNG whose `u32` outputs are scripted by the test; falls back to a counter in a high range.
#[derive(Clone, Default)]
pub struct Scripted {
    pub q: Arc<Mutex<VecDeque<u32>>>,
    pub fallback: Arc<Mutex<u32>>,
    pub fallback_draws: Arc<Mutex<u32>>,
}

impl Scripted {
    pub fn push(&self, id: u32) {
        self.q.lock().unwrap().push_back(id);
    }
    pub fn pending(&self) -> usize {
        self.q.lock().unwrap().len()
    }
    pub fn fallback_draws(&self) -> u32 {
        *self.fallback_draws.lock().unwrap()
    }
}

impl rand::TryRng for Scripted {
    type Error = Infallible;
    fn try_next_u32(&mut self) -> Result<u32, Infallible> {
        if let Some(v) = self.q.lock().unwrap().pop_front() {
            return Ok(v);
        }
        *self.fallback_draws.lock().unwrap() += 1;
        let mut f = self.fallback.lock().unwrap();
        *f += 1;
        Ok(0x4000_0000 + *f)
    }
    fn try_next_u64(&mut self) -> Result<u64, Infallible> {
        Ok(u64::from(self.try_next_u32()?))
    }
    fn try_fill_bytes(&mut self, dst: &mut [u8]) -> Result<(), Infallible> {
        for b in dst.iter_mut() {
            *b = 0;
        }
        Ok(())
    }
}

/// Let every other task on the current-thread runtime run until nothing moves any more.
pub async fn settle() {
    for _ in 0..40 {
        tokio::task::yield_now().await;
    }
}

/// Tiny PRNG for scenario generation
pub struct Xs(pub u64);
impl Xs {
    pub fn next(&mut self) -> u64 {
        let mut x = self.0;
        x ^= x << 13;
        x ^= x >> 7;
        x ^= x << 17;
        self.0 = x;
        x
    }
    pub fn below(&mut self, n: u64) -> u64 {
        self.next() % n
    }
    pub fn chance(&mut self, num: u64, den: u64) -> bool {
        self.below(den) < num
    }
}
