//! Differential check of penguin-socks against an independent reading of RFC 1928 / SOCKS4 / SOCKS4a.
use bytes::Bytes;
use penguin_socks::{v4, v5};
use std::net::{Ipv4Addr, Ipv6Addr, SocketAddr, SocketAddrV4, SocketAddrV6};
use std::pin::Pin;
use std::task::{Context, Poll};
use tokio::io::{AsyncRead, AsyncWrite, BufReader, ReadBuf};

/// Input delivered in chunks of at most `chunk` bytes; output collected.
struct Duplex {
    input: Vec<u8>,
    pos: usize,
    chunk: usize,
    output: Vec<u8>,
    flushed: usize,
}

impl Duplex {
    fn new(input: &[u8], chunk: usize) -> Self {
        Self {
            input: input.to_vec(),
            pos: 0,
            chunk,
            output: Vec::new(),
            flushed: 0,
        }
    }
}

impl AsyncRead for Duplex {
    fn poll_read(
        mut self: Pin<&mut Self>,
        _cx: &mut Context<'_>,
        buf: &mut ReadBuf<'_>,
    ) -> Poll<std::io::Result<()>> {
        let n = self
            .chunk
            .min(buf.remaining())
            .min(self.input.len() - self.pos);
        let p = self.pos;
        buf.put_slice(&self.input[p..p + n]);
        self.pos += n;
        Poll::Ready(Ok(()))
    }
}

impl AsyncWrite for Duplex {
    fn poll_write(
        mut self: Pin<&mut Self>,
        _cx: &mut Context<'_>,
        buf: &[u8],
    ) -> Poll<std::io::Result<usize>> {
        // accept at most 3 bytes at a time to exercise write_all
        let n = buf.len().min(3);
        self.output.extend_from_slice(&buf[..n]);
        Poll::Ready(Ok(n))
    }
    fn poll_flush(mut self: Pin<&mut Self>, _cx: &mut Context<'_>) -> Poll<std::io::Result<()>> {
        self.flushed = self.output.len();
        Poll::Ready(Ok(()))
    }
    fn poll_shutdown(self: Pin<&mut Self>, _cx: &mut Context<'_>) -> Poll<std::io::Result<()>> {
        Poll::Ready(Ok(()))
    }
}

struct Lcg(u64);
impl Lcg {
    fn next(&mut self) -> u64 {
        self.0 = self
            .0
            .wrapping_mul(6364136223846793005)
            .wrapping_add(1442695040888963407);
        self.0 >> 33
    }
    fn bytes(&mut self, n: usize, nonzero: bool) -> Vec<u8> {
        (0..n)
            .map(|_| {
                let b = self.next() as u8;
                if nonzero && b == 0 { 1 } else { b }
            })
            .collect()
    }
}

/// Reference: parse a SOCKS5 request. Ok(Some((cmd, addr-text, port, consumed))), Ok(None) = truncated,
/// Err = malformed.
fn ref5(b: &[u8]) -> Result<Option<(u8, Vec<u8>, u16, usize)>, &'static str> {
    if b.is_empty() {
        return Ok(None);
    }
    if b[0] != 5 {
        return Err("version");
    }
    if b.len() < 4 {
        return Ok(None);
    }
    let cmd = b[1];
    let (addr, n): (Vec<u8>, usize) = match b[3] {
        1 => {
            if b.len() < 8 {
                return Ok(None);
            }
            (
                Ipv4Addr::new(b[4], b[5], b[6], b[7]).to_string().into(),
                8,
            )
        }
        3 => {
            if b.len() < 5 {
                return Ok(None);
            }
            let l = b[4] as usize;
            if b.len() < 5 + l {
                return Ok(None);
            }
            (b[5..5 + l].to_vec(), 5 + l)
        }
        4 => {
            if b.len() < 20 {
                return Ok(None);
            }
            let mut a = [0u8; 16];
            a.copy_from_slice(&b[4..20]);
            (Ipv6Addr::from(a).to_string().into(), 20)
        }
        _ => return Err("atyp"),
    };
    if b.len() < n + 2 {
        return Ok(None);
    }
    Ok(Some((cmd, addr, u16::from(b[n]) << 8 | u16::from(b[n + 1]), n + 2)))
}

async fn check5(input: &[u8], chunk: usize) {
    let mut d = Duplex::new(input, chunk);
    let got = v5::read_request(&mut d).await;
    match ref5(input) {
        Ok(Some((cmd, addr, port, consumed))) => {
            let (c, a, p) = got.unwrap_or_else(|e| panic!("{input:02x?}: expected ok, got {e}"));
            assert_eq!((c, &a, p), (cmd, &addr, port), "{input:02x?}");
            assert_eq!(d.pos, consumed, "consumed {input:02x?}");
            assert!(d.output.is_empty());
        }
        Ok(None) => {
            assert!(got.is_err(), "{input:02x?} truncated but ok");
            assert!(d.output.is_empty(), "{input:02x?}");
        }
        Err("atyp") => {
            assert!(got.is_err(), "{input:02x?}");
            assert_eq!(d.output, [5, 8, 0, 1, 0, 0, 0, 0, 0, 0]);
            assert_eq!(d.flushed, 10);
            assert_eq!(d.pos, 4);
        }
        Err(_) => {
            assert!(got.is_err(), "{input:02x?}");
            assert!(d.output.is_empty());
        }
    }
}

#[tokio::test]
async fn socks5_requests() {
    let mut r = Lcg(1);
    let mut n = 0u64;
    for atyp in 0..=255u8 {
        for cmd in [0u8, 1, 2, 3, 4, 0x7f, 0xff] {
            for rsv in [0u8, 1, 0xff] {
                let lens: Vec<usize> = if atyp == 3 {
                    (0..=255).collect()
                } else {
                    vec![0]
                };
                for l in lens {
                    if atyp == 3 && l > 3 && l < 250 && (cmd != 1 || rsv != 0) {
                        continue;
                    }
                    let mut m = vec![5, cmd, rsv, atyp];
                    match atyp {
                        1 => m.extend(r.bytes(4, false)),
                        3 => {
                            m.push(l as u8);
                            m.extend(r.bytes(l, false));
                        }
                        4 => {
                            // mix in special forms
                            let mut a = r.bytes(16, false);
                            match r.next() % 6 {
                                0 => a[..12].copy_from_slice(&[0, 0, 0, 0, 0, 0, 0, 0, 0, 0, 0xff, 0xff]),
                                1 => a[..12].fill(0),
                                2 => a.fill(0),
                                3 => {
                                    a.fill(0);
                                    a[15] = 1
                                }
                                4 => a[4..10].fill(0),
                                _ => {}
                            }
                            m.extend(a)
                        }
                        _ => m.extend(r.bytes(6, false)),
                    }
                    m.extend(r.bytes(2, false));
                    // trailing bytes that do not belong to the request
                    let full = m.len();
                    m.extend(r.bytes(5, false));
                    for chunk in [1usize, 3, 1 << 20] {
                        check5(&m, chunk).await;
                        n += 1;
                    }
                    // every truncation point
                    if l < 6 || l > 250 {
                        for cut in 0..full {
                            check5(&m[..cut], 2).await;
                            n += 1;
                        }
                    }
                }
            }
        }
    }
    // unknown versions
    for v in 0..=255u8 {
        if v == 5 {
            continue;
        }
        check5(&[v, 1, 0, 1, 1, 2, 3, 4, 0, 80], 1).await;
    }
    eprintln!("socks5 cases: {n}");
}

/// Reference for SOCKS4/4a (after VN). Same conventions as ref5.
fn ref4(b: &[u8]) -> Result<Option<(u8, Vec<u8>, u16, usize)>, &'static str> {
    if b.len() < 7 {
        return Ok(None);
    }
    let cmd = b[0];
    let port = u16::from(b[1]) << 8 | u16::from(b[2]);
    let ip = [b[3], b[4], b[5], b[6]];
    let Some(z) = b[7..].iter().position(|&x| x == 0) else {
        return Ok(None);
    };
    let after_user = 7 + z + 1;
    if ip[0] == 0 && ip[1] == 0 && ip[2] == 0 && ip[3] != 0 {
        let Some(z2) = b[after_user..].iter().position(|&x| x == 0) else {
            return Ok(None);
        };
        Ok(Some((
            cmd,
            b[after_user..after_user + z2].to_vec(),
            port,
            after_user + z2 + 1,
        )))
    } else {
        Ok(Some((
            cmd,
            Ipv4Addr::from(ip).to_string().into(),
            port,
            after_user,
        )))
    }
}

async fn check4(input: &[u8], chunk: usize, cap: usize) {
    let d = Duplex::new(input, chunk);
    let mut br = BufReader::with_capacity(cap, d);
    let got = v4::read_request(&mut br).await;
    let buffered = br.buffer().len();
    let d = br.into_inner();
    let consumed = d.pos - buffered;
    match ref4(input) {
        Ok(Some((cmd, addr, port, want))) => {
            let (c, a, p) = got.unwrap_or_else(|e| panic!("{input:02x?}: expected ok, got {e}"));
            assert_eq!((c, &a, p), (cmd, &addr, port), "{input:02x?}");
            assert_eq!(consumed, want, "consumed {input:02x?}");
        }
        Ok(None) => assert!(got.is_err(), "{input:02x?} truncated but ok"),
        Err(_) => assert!(got.is_err()),
    }
    assert!(d.output.is_empty());
}

#[tokio::test]
async fn socks4_requests() {
    let mut r = Lcg(2);
    let mut n = 0u64;
    let ips: Vec<[u8; 4]> = vec![
        [0, 0, 0, 0],
        [0, 0, 0, 1],
        [0, 0, 0, 255],
        [0, 0, 1, 0],
        [0, 0, 1, 1],
        [0, 1, 0, 0],
        [0, 1, 0, 1],
        [1, 0, 0, 0],
        [1, 0, 0, 1],
        [0, 255, 255, 255],
        [127, 0, 0, 1],
        [255, 255, 255, 255],
        [0, 0, 0, 128],
    ];
    for ip in &ips {
        for cmd in [0u8, 1, 2, 3, 0xff] {
            for ulen in [0usize, 1, 2, 7, 8, 9, 15, 16, 17, 255, 256, 300, 9000] {
                for dlen in [0usize, 1, 2, 15, 16, 17, 255, 256, 300, 9000] {
                    if (ulen > 20 || dlen > 20) && cmd != 1 {
                        continue;
                    }
                    let mut m = vec![cmd];
                    m.extend(r.bytes(2, false));
                    m.extend(ip);
                    m.extend(r.bytes(ulen, true));
                    m.push(0);
                    m.extend(r.bytes(dlen, true));
                    m.push(0);
                    m.extend(r.bytes(3, true));
                    for (chunk, cap) in [(1usize, 16usize), (5, 16), (1 << 20, 8192), (3, 8)] {
                        if m.len() > 1000 && chunk == 1 {
                            continue;
                        }
                        check4(&m, chunk, cap).await;
                        n += 1;
                    }
                    if ulen <= 9 && dlen <= 17 {
                        for cut in 0..m.len() {
                            check4(&m[..cut], 2, 16).await;
                            n += 1;
                        }
                    }
                }
            }
        }
    }
    // random ips
    for _ in 0..20000 {
        let mut m = vec![1];
        m.extend(r.bytes(2, false));
        let mut ip = r.bytes(4, false);
        for b in ip.iter_mut().take(3) {
            if r.next() % 2 == 0 {
                *b = 0
            }
        }
        m.extend(ip);
        let ul = (r.next() % 5) as usize;
        m.extend(r.bytes(ul, true));
        m.push(0);
        let dl = (r.next() % 5) as usize;
        m.extend(r.bytes(dl, true));
        m.push(0);
        check4(&m, 1 + (r.next() % 4) as usize, 16).await;
        n += 1;
    }
    eprintln!("socks4 cases: {n}");
}

#[tokio::test]
async fn replies() {
    let mut r = Lcg(3);
    for rep in 0..=255u8 {
        let mut d = Duplex::new(&[], 1);
        v4::write_response(&mut d, rep).await.unwrap();
        assert_eq!(d.output, [0, rep, 0, 0, 0, 0, 0, 0]);
        assert_eq!(d.flushed, 8);
        let mut d = Duplex::new(&[], 1);
        v5::write_response_unspecified(&mut d, rep).await.unwrap();
        assert_eq!(d.output, [5, rep, 0, 1, 0, 0, 0, 0, 0, 0]);
        assert_eq!(d.flushed, 10);
        for _ in 0..50 {
            let a4 = r.bytes(4, false);
            let port = r.next() as u16;
            let sa = SocketAddr::V4(SocketAddrV4::new(
                Ipv4Addr::new(a4[0], a4[1], a4[2], a4[3]),
                port,
            ));
            let mut d = Duplex::new(&[], 1);
            v5::write_response(&mut d, rep, sa).await.unwrap();
            let mut want = vec![5, rep, 0, 1];
            want.extend(&a4);
            want.extend(port.to_be_bytes());
            assert_eq!(d.output, want);
            assert_eq!(d.flushed, want.len());
            let a6 = r.bytes(16, false);
            let mut a = [0u8; 16];
            a.copy_from_slice(&a6);
            if r.next() % 4 == 0 {
                a[..12].copy_from_slice(&[0, 0, 0, 0, 0, 0, 0, 0, 0, 0, 0xff, 0xff]);
            }
            let sa = SocketAddr::V6(SocketAddrV6::new(
                Ipv6Addr::from(a),
                port,
                r.next() as u32,
                r.next() as u32,
            ));
            let mut d = Duplex::new(&[], 1);
            v5::write_response(&mut d, rep, sa).await.unwrap();
            let mut want = vec![5, rep, 0, 4];
            want.extend(&a);
            want.extend(port.to_be_bytes());
            assert_eq!(d.output, want);
        }
    }
    for m in 0..=255u8 {
        let mut d = Duplex::new(&[], 1);
        v5::write_auth_method(&mut d, m).await.unwrap();
        assert_eq!(d.output, [5, m]);
    }
    // auth methods
    for nm in 0..=255usize {
        let mut m = vec![nm as u8];
        let body = r.bytes(nm, false);
        m.extend(&body);
        m.extend([9, 9]);
        let mut d = Duplex::new(&m, 2);
        assert_eq!(v5::read_auth_methods(&mut d).await.unwrap(), body);
        assert_eq!(d.pos, 1 + nm);
        for cut in 0..=nm {
            let mut d = Duplex::new(&m[..cut], 2);
            assert!(v5::read_auth_methods(&mut d).await.is_err());
        }
    }
}

/// What a conforming client does with a relay datagram (RFC 1928 section 7).
fn client_parse(b: &[u8]) -> Option<(SocketAddr, Vec<u8>)> {
    if b.len() < 4 || b[0] != 0 || b[1] != 0 || b[2] != 0 {
        return None;
    }
    match b[3] {
        1 if b.len() >= 10 => Some((
            SocketAddr::from(([b[4], b[5], b[6], b[7]], u16::from_be_bytes([b[8], b[9]]))),
            b[10..].to_vec(),
        )),
        4 if b.len() >= 22 => {
            let mut a = [0u8; 16];
            a.copy_from_slice(&b[4..20]);
            Some((
                SocketAddr::from((a, u16::from_be_bytes([b[20], b[21]]))),
                b[22..].to_vec(),
            ))
        }
        _ => None,
    }
}

#[test]
fn udp_roundtrip_and_parse() {
    let mut r = Lcg(4);
    for i in 0..20000 {
        let port = r.next() as u16;
        let plen = match i % 4 {
            0 => 0,
            1 => (r.next() % 4) as usize,
            2 => (r.next() % 2000) as usize,
            _ => 65507 - 22,
        };
        let payload = r.bytes(plen, false);
        let sa = if r.next() % 2 == 0 {
            let a = r.bytes(4, false);
            SocketAddr::from(([a[0], a[1], a[2], a[3]], port))
        } else {
            let mut a = [0u8; 16];
            a.copy_from_slice(&r.bytes(16, false));
            if r.next() % 4 == 0 {
                a[..12].copy_from_slice(&[0, 0, 0, 0, 0, 0, 0, 0, 0, 0, 0xff, 0xff]);
            }
            SocketAddr::V6(SocketAddrV6::new(Ipv6Addr::from(a), port, r.next() as u32, 7))
        };
        let dg = v5::udp_relay_response(sa, &payload);
        let (a, p) = client_parse(&dg).expect("parse");
        assert_eq!(a.ip(), sa.ip());
        assert_eq!(a.port(), sa.port());
        assert_eq!(p, payload);
        // and our own parser agrees
        let (h, pt, rest) = v5::parse_udp_relay_header(Bytes::from(dg.clone())).unwrap();
        assert_eq!(h, sa.ip().to_string().as_bytes());
        assert_eq!(pt, port);
        assert_eq!(rest, payload);
        if i < 300 {
            let hdr = dg.len() - payload.len();
            for cut in 0..hdr {
                assert!(v5::parse_udp_relay_header(Bytes::copy_from_slice(&dg[..cut])).is_err());
            }
        }
    }
    // domain headers, all lengths, all truncations, all atyp, frag
    for l in 0..=255usize {
        let mut m = vec![r.next() as u8, r.next() as u8, 0, 3, l as u8];
        let dom = r.bytes(l, false);
        m.extend(&dom);
        m.extend([0x12, 0x34]);
        let hdr = m.len();
        m.extend(r.bytes(l % 7, false));
        let (h, p, rest) = v5::parse_udp_relay_header(Bytes::from(m.clone())).unwrap();
        assert_eq!(h, dom);
        assert_eq!(p, 0x1234);
        assert_eq!(rest, m[hdr..]);
        for cut in 0..hdr {
            assert!(v5::parse_udp_relay_header(Bytes::copy_from_slice(&m[..cut])).is_err());
        }
    }
    for atyp in 0..=255u8 {
        for frag in [0u8, 1, 0x80, 0xff] {
            let mut m = vec![0, 0, frag, atyp];
            m.extend(r.bytes(30, false));
            let res = v5::parse_udp_relay_header(Bytes::from(m.clone()));
            if frag != 0 || !matches!(atyp, 1 | 3 | 4) {
                assert!(res.is_err());
            } else if atyp != 3 || (m[4] as usize) + 2 <= 25 {
                assert!(res.is_ok());
            }
            for cut in 0..m.len() {
                let _ = v5::parse_udp_relay_header(Bytes::copy_from_slice(&m[..cut]));
            }
        }
    }
}
