#!/bin/bash
# tools/benign.sh <benign/ID dir> <check IDs...>   (env MUT=/tmp/mutx scratch prefix)
# Runs the named checks against every property-PRESERVING patch b*.diff of the directory (scratch worktree, never /repo).
# Any violation is a false-alarm candidate; results -> <dir>/falsealarm.json
set -u
D=$(readlink -f "$1"); shift
IDS="$*"
export MUT=${MUT:-/tmp/mutx}
res="{"
# ONLYB=b4 re-runs one patch and merges the result into the existing falsealarm.json
for p in $D/b*.diff; do
  n=$(basename $p .diff)
  [ -n "${ONLYB:-}" ] && [ "$n" != "$ONLYB" ] && continue
  out=$(TIER=${TIER:-quick} /verif/tools/mutate.sh $p $IDS 2>&1)
  echo "=== $n"; echo "$out" | grep -E "^==|^    |PATCH DOES NOT" | cut -c1-330
  j=$(echo "$out" | python3 -c "
import sys,re,json
res={};cur=None
for l in sys.stdin:
    m=re.match(r'== (\S+): machinery_error=(.*?) evaluations=(\S+) violations=(\d+)',l)
    if m: cur=m.group(1); res[cur]={'violations':int(m.group(4)),'machinery_error':None if m.group(2)=='None' else m.group(2),'keys':[]}; continue
    m=re.match(r'\s+(\S+) x\d+ ::',l)
    if m and cur: res[cur]['keys'].append(m.group(1))
    if 'PATCH DOES NOT APPLY' in l: res['_apply']='failed'
print(json.dumps(res))")
  res="$res\"$n\": $j,"
done
echo "${res%,}}" | python3 -c "
import sys,json,os
d=json.load(sys.stdin)
f='$D/falsealarm.json'
if os.environ.get('ONLYB') and os.path.exists(f):
    old=json.load(open(f))
    for k,v in d.items():
        old.setdefault(k,{}).update(v)
    d=old
json.dump(d,open(f,'w'),indent=1)"
