//! Entry point of the penguin-mux / cow-bytes / penguin-socks checks.
//! `vmux <ID> --tier quick|thorough --out FILE [--replay FILE] [--threads N]`

mod apps;
mod bytepipe;
mod codec;
mod dbgtrace;
mod drivers;
mod explore;
mod link;
mod raw;
mod sim;
mod wiremon;

pub use vcommon::{Args, report};

fn main() {
    vcommon::main_with(drivers::dispatch, |e| {
        e.downcast_ref::<explore::Divergence>().map(|d| format!("divergence: {}", d.0))
    })
}
