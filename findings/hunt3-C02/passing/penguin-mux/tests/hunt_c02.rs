//! Random schedule exploration of the C02 property (scratch harness).
#![allow(clippy::all, clippy::pedantic, clippy::nursery, missing_docs)]

use penguin_mux::config::Options;
use penguin_mux::ws::{Message, WebSocket};
use penguin_mux::{Datagram, Multiplexor, MuxStream};
use rand::rngs::SmallRng;
use rand::{RngExt, SeedableRng};
use std::cell::RefCell;
use std::collections::VecDeque;
use std::future::Future;
use std::io::IoSlice;
use std::pin::Pin;
use std::rc::Rc;
use std::sync::atomic::{AtomicBool, Ordering};
use std::sync::{Arc, Mutex};
use std::task::{Context, Poll, Wake, Waker};
use tokio::io::{AsyncBufRead, AsyncRead, AsyncWrite, ReadBuf};

// ---------------------------------------------------------------- link

#[derive(Default)]
struct Dir {
    q: VecDeque<Message>,
    cap: usize,
    /// number of messages the scheduler lets the receiver take
    allowed: usize,
    rx_waker: Option<Waker>,
    tx_waker: Option<Waker>,
    tx_gone: bool,
    trace: Vec<String>,
}

struct Ws {
    name: &'static str,
    tx: Arc<Mutex<Dir>>,
    rx: Arc<Mutex<Dir>>,
    rx_done: bool,
}

impl Drop for Ws {
    fn drop(&mut self) {
        let mut d = self.tx.lock().unwrap();
        d.tx_gone = true;
        if let Some(w) = d.rx_waker.take() {
            w.wake();
        }
    }
}

fn describe(m: &Message) -> String {
    match m {
        Message::Binary(b) => {
            if b.len() >= 5 {
                let op = b[0] & 0xf;
                let id = u32::from_be_bytes([b[1], b[2], b[3], b[4]]);
                let opn = ["Con", "Ack", "Rst", "Fin", "Psh", "Bnd", "Dgm"]
                    .get(op as usize)
                    .copied()
                    .unwrap_or("???");
                if op == 1 && b.len() >= 9 {
                    format!(
                        "{opn}({id:x},{})",
                        u32::from_be_bytes([b[5], b[6], b[7], b[8]])
                    )
                } else {
                    format!("{opn}({id:x},len={})", b.len() - 5)
                }
            } else {
                format!("Bin(len={})", b.len())
            }
        }
        Message::Ping => "Ping".into(),
        Message::Pong => "Pong".into(),
        Message::Close => "Close".into(),
    }
}

impl WebSocket for Ws {
    fn poll_ready_unpin(&mut self, cx: &mut Context<'_>) -> Poll<Result<(), penguin_mux::Error>> {
        let mut d = self.tx.lock().unwrap();
        if d.q.len() >= d.cap {
            d.tx_waker = Some(cx.waker().clone());
            Poll::Pending
        } else {
            Poll::Ready(Ok(()))
        }
    }
    fn start_send_unpin(&mut self, item: Message) -> Result<(), penguin_mux::Error> {
        let mut d = self.tx.lock().unwrap();
        let s = format!("{} -> {}", self.name, describe(&item));
        d.trace.push(s);
        d.q.push_back(item);
        Ok(())
    }
    fn poll_flush_unpin(&mut self, _cx: &mut Context<'_>) -> Poll<Result<(), penguin_mux::Error>> {
        Poll::Ready(Ok(()))
    }
    fn poll_close_unpin(&mut self, cx: &mut Context<'_>) -> Poll<Result<(), penguin_mux::Error>> {
        let mut d = self.tx.lock().unwrap();
        if d.tx_gone {
            return Poll::Ready(Ok(()));
        }
        if d.q.len() >= d.cap {
            d.tx_waker = Some(cx.waker().clone());
            return Poll::Pending;
        }
        d.q.push_back(Message::Close);
        d.tx_gone = true;
        if let Some(w) = d.rx_waker.take() {
            w.wake();
        }
        Poll::Ready(Ok(()))
    }
    fn poll_next_unpin(
        &mut self,
        cx: &mut Context<'_>,
    ) -> Poll<Option<Result<Message, penguin_mux::Error>>> {
        if self.rx_done {
            return Poll::Ready(None);
        }
        let mut d = self.rx.lock().unwrap();
        if d.allowed > 0
            && let Some(m) = d.q.pop_front()
        {
            d.allowed -= 1;
            if let Some(w) = d.tx_waker.take() {
                w.wake();
            }
            if matches!(m, Message::Close) {
                // answer is not modelled; the source ends after the Close
                self.rx_done = true;
            }
            return Poll::Ready(Some(Ok(m)));
        }
        if d.q.is_empty() && d.tx_gone {
            self.rx_done = true;
            return Poll::Ready(None);
        }
        d.rx_waker = Some(cx.waker().clone());
        Poll::Pending
    }
}

// ---------------------------------------------------------------- ids

struct IdRng {
    next: u32,
}
impl rand::TryRng for IdRng {
    type Error = core::convert::Infallible;
    fn try_next_u32(&mut self) -> Result<u32, Self::Error> {
        self.next += 2;
        Ok(self.next)
    }
    fn try_next_u64(&mut self) -> Result<u64, Self::Error> {
        self.try_next_u32().map(u64::from)
    }
    fn try_fill_bytes(&mut self, dst: &mut [u8]) -> Result<(), Self::Error> {
        dst.fill(0);
        Ok(())
    }
}

// ---------------------------------------------------------------- executor

struct Flag(AtomicBool);
impl Wake for Flag {
    fn wake(self: Arc<Self>) {
        self.0.store(true, Ordering::SeqCst);
    }
    fn wake_by_ref(self: &Arc<Self>) {
        self.0.store(true, Ordering::SeqCst);
    }
}

type BoxFut = Pin<Box<dyn Future<Output = ()>>>;

struct Slot {
    name: String,
    fut: Option<BoxFut>,
    flag: Arc<Flag>,
}

// ---------------------------------------------------------------- world

fn gen_byte(k: usize, side: usize, pos: usize) -> u8 {
    let x = (pos as u32)
        .wrapping_mul(2_654_435_761)
        .wrapping_add((k as u32 * 2 + side as u32).wrapping_mul(0x9E37_79B9));
    (x >> 11) as u8 ^ (x >> 3) as u8
}

#[derive(Default, Clone, Debug)]
struct DirState {
    /// bytes accepted by successful writes of the writer
    accepted: usize,
    /// writer finished with a successful shutdown and no failed write before it
    clean_shutdown: bool,
    writer_failed: bool,
    writer_dropped_without_shutdown: bool,
    /// bytes obtained by the reader
    got: usize,
    reader_eof: bool,
    reader_dropped: bool,
    reader_started: bool,
    /// the writer had shut down cleanly before its own side dropped the Multiplexor
    must_complete: bool,
}

struct World {
    rng: SmallRng,
    drain: bool,
    /// dirs[k][writer side]
    dirs: Vec<[DirState; 2]>,
    spawn: Vec<(String, BoxFut)>,
    log: Vec<String>,
    violation: Option<String>,
    allow_drop: bool,
    mux_dropped: bool,
}

type W = Rc<RefCell<World>>;

fn violate(w: &W, s: String) {
    let mut w = w.borrow_mut();
    if w.violation.is_none() {
        w.violation = Some(s);
    }
}

struct StreamActor {
    s: Option<MuxStream>,
    k: usize,
    side: usize,
    w: W,
    shutdown_done: bool,
    steps: usize,
    lazy: bool,
}

impl StreamActor {
    fn log(&self, s: String) {
        self.w
            .borrow_mut()
            .log
            .push(format!("[s{} side{}] {s}", self.k, self.side));
    }

    /// returns Some(progress) ; None = Pending
    fn try_write(&mut self, cx: &mut Context<'_>) -> Option<bool> {
        let (k, side) = (self.k, self.side);
        let st = self.w.borrow().dirs[k][side].clone();
        if self.shutdown_done || st.writer_failed {
            return Some(false);
        }
        let drain = self.w.borrow().drain;
        if drain {
            // finish cleanly
            let s = self.s.as_mut().unwrap();
            match Pin::new(s).poll_shutdown(cx) {
                Poll::Ready(Ok(())) => {
                    self.shutdown_done = true;
                    self.w.borrow_mut().dirs[k][side].clean_shutdown = true;
                    self.log("shutdown ok (drain)".into());
                    return Some(true);
                }
                Poll::Ready(Err(e)) => {
                    self.w.borrow_mut().dirs[k][side].writer_failed = true;
                    self.log(format!("shutdown err {e}"));
                    return Some(true);
                }
                Poll::Pending => return None,
            }
        }
        // choose what to write (may differ from the previous attempt: cancelling is legal)
        let (len, vectored, do_shutdown) = {
            let mut w = self.w.borrow_mut();
            let r = &mut w.rng;
            let len = match r.random_range(0..8u32) {
                0 => 0,
                1 => 1,
                2 => r.random_range(2..10usize),
                3 => r.random_range(10..300usize),
                4 => r.random_range(300..5000usize),
                _ => r.random_range(1..64usize),
            };
            (len, r.random_bool(0.3), r.random_range(0..60u32) == 0)
        };
        let s = self.s.as_mut().unwrap();
        if do_shutdown {
            match Pin::new(s).poll_shutdown(cx) {
                Poll::Ready(Ok(())) => {
                    self.shutdown_done = true;
                    self.w.borrow_mut().dirs[k][side].clean_shutdown = true;
                    self.log("shutdown ok".into());
                    return Some(true);
                }
                Poll::Ready(Err(e)) => {
                    self.w.borrow_mut().dirs[k][side].writer_failed = true;
                    self.log(format!("shutdown err {e}"));
                    return Some(true);
                }
                Poll::Pending => return None,
            }
        }
        let data: Vec<u8> = (0..len)
            .map(|i| gen_byte(k, side, st.accepted + i))
            .collect();
        let res = if vectored {
            let cut1 = if len == 0 { 0 } else { len / 3 };
            let cut2 = if len == 0 { 0 } else { len / 3 + len / 2 };
            let cut2 = cut2.min(len);
            let empty: [u8; 0] = [];
            let bufs = [
                IoSlice::new(&data[..cut1]),
                IoSlice::new(&empty),
                IoSlice::new(&data[cut1..cut2]),
                IoSlice::new(&data[cut2..]),
            ];
            Pin::new(s).poll_write_vectored(cx, &bufs)
        } else {
            Pin::new(s).poll_write(cx, &data)
        };
        match res {
            Poll::Ready(Ok(n)) => {
                if n > len {
                    violate(&self.w, format!("write returned {n} > {len}"));
                }
                self.w.borrow_mut().dirs[k][side].accepted += n;
                self.log(format!("wrote {n}/{len} vectored={vectored}"));
                Some(true)
            }
            Poll::Ready(Err(e)) => {
                self.w.borrow_mut().dirs[k][side].writer_failed = true;
                self.log(format!("write err {e}"));
                Some(true)
            }
            Poll::Pending => None,
        }
    }

    fn try_read(&mut self, cx: &mut Context<'_>) -> Option<bool> {
        let (k, side) = (self.k, self.side);
        let wside = 1 - side;
        let st = self.w.borrow().dirs[k][wside].clone();
        if st.reader_eof {
            return Some(false);
        }
        if self.lazy && !self.w.borrow().drain {
            // an application that does not read for now: stay parked on the write side only
            return None;
        }
        let (mode, cap) = {
            let mut w = self.w.borrow_mut();
            let r = &mut w.rng;
            (
                r.random_range(0..3u32),
                match r.random_range(0..4u32) {
                    0 => 1,
                    1 => r.random_range(2..16usize),
                    2 => r.random_range(16..400usize),
                    _ => 10_000,
                },
            )
        };
        let s = self.s.as_mut().unwrap();
        let mut obtained: Vec<u8> = Vec::new();
        let mut eof = false;
        if mode == 0 {
            // AsyncBufRead with partial consume
            match Pin::new(&mut *s).poll_fill_buf(cx) {
                Poll::Ready(Ok(b)) => {
                    if b.is_empty() {
                        eof = true;
                    } else {
                        let n = cap.min(b.len());
                        obtained.extend_from_slice(&b[..n]);
                        Pin::new(&mut *s).consume(n);
                    }
                }
                Poll::Ready(Err(e)) => {
                    violate(&self.w, format!("read error {e}"));
                    return Some(false);
                }
                Poll::Pending => return None,
            }
        } else {
            let mut buf = vec![0u8; cap];
            let mut rb = ReadBuf::new(&mut buf);
            match Pin::new(&mut *s).poll_read(cx, &mut rb) {
                Poll::Ready(Ok(())) => {
                    if rb.filled().is_empty() {
                        eof = true;
                    } else {
                        obtained.extend_from_slice(rb.filled());
                    }
                }
                Poll::Ready(Err(e)) => {
                    violate(&self.w, format!("read error {e}"));
                    return Some(false);
                }
                Poll::Pending => return None,
            }
        }
        if eof {
            self.w.borrow_mut().dirs[k][wside].reader_eof = true;
            self.log(format!("read EOF at {}", st.got));
            return Some(true);
        }
        // check
        for (i, b) in obtained.iter().enumerate() {
            let pos = st.got + i;
            if *b != gen_byte(k, wside, pos) {
                violate(
                    &self.w,
                    format!(
                        "stream {k} reader side {side}: byte at {pos} is {b:#x}, expected {:#x}",
                        gen_byte(k, wside, pos)
                    ),
                );
                break;
            }
        }
        let accepted_now = self.w.borrow().dirs[k][wside].accepted;
        // NB: the writer's accepted counter is updated right after its poll returns, and a
        // frame cannot reach us before that in this single-threaded executor
        if st.got + obtained.len() > accepted_now {
            violate(
                &self.w,
                format!(
                    "stream {k} reader side {side}: got {} bytes, only {accepted_now} accepted",
                    st.got + obtained.len()
                ),
            );
        }
        self.w.borrow_mut().dirs[k][wside].got += obtained.len();
        self.log(format!("read {} (total {})", obtained.len(), st.got + obtained.len()));
        Some(true)
    }
}

impl Future for StreamActor {
    type Output = ();
    fn poll(self: Pin<&mut Self>, cx: &mut Context<'_>) -> Poll<()> {
        let this = self.get_mut();
        if this.s.is_none() {
            return Poll::Ready(());
        }
        let (k, side) = (this.k, this.side);
        this.w.borrow_mut().dirs[k][1 - side].reader_started = true;
        // a bounded number of operations per poll, then yield
        let budget = this.w.borrow_mut().rng.random_range(1..4usize);
        for _ in 0..budget {
            this.steps += 1;
            let (drain, allow_drop) = {
                let w = this.w.borrow();
                (w.drain, w.allow_drop)
            };
            // drop?
            if !drain && allow_drop && this.w.borrow_mut().rng.random_range(0..400u32) == 0 {
                this.log("DROP".into());
                {
                    let mut w = this.w.borrow_mut();
                    if !this.shutdown_done {
                        w.dirs[k][side].writer_dropped_without_shutdown = true;
                    }
                    if !w.dirs[k][1 - side].reader_eof {
                        w.dirs[k][1 - side].reader_dropped = true;
                    }
                }
                this.s = None;
                return Poll::Ready(());
            }
            let write_first = this.w.borrow_mut().rng.random_bool(0.5);
            let (a, b) = if write_first {
                let a = this.try_write(cx);
                if a == Some(true) {
                    continue;
                }
                (a, this.try_read(cx))
            } else {
                let a = this.try_read(cx);
                if a == Some(true) {
                    continue;
                }
                (a, this.try_write(cx))
            };
            if b == Some(true) {
                continue;
            }
            if a == Some(false) && b == Some(false) {
                // both directions finished
                this.log("done, dropping".into());
                this.s = None;
                return Poll::Ready(());
            }
            // at least one is Pending and nothing progressed
            return Poll::Pending;
        }
        cx.waker().wake_by_ref();
        Poll::Pending
    }
}

fn spawn(w: &W, name: String, f: impl Future<Output = ()> + 'static) {
    w.borrow_mut().spawn.push((name, Box::pin(f)));
}

struct Cfg {
    seed: u64,
    verbose: bool,
}

fn pick<T: Copy>(r: &mut SmallRng, xs: &[T]) -> T {
    xs[r.random_range(0..xs.len())]
}

fn run(cfg: &Cfg) -> Result<(), String> {
    let mut rng = SmallRng::seed_from_u64(cfg.seed);
    let nstreams = rng.random_range(1..5usize);
    let mk_opts = |r: &mut SmallRng| {
        Options::new()
            .rwnd(pick(r, &[1, 1, 2, 3, 4, 8, 512]))
            .default_rwnd_threshold(pick(r, &[1, 2, 3, 4, 7, 256, u32::MAX]))
            .stream_buffer_size(pick(r, &[1, 2, 16]))
            .datagram_buffer_size(pick(r, &[1, 4, 512]))
            .bind_buffer_size(pick(r, &[0, 1, 4]))
    };
    let opts = [mk_opts(&mut rng), mk_opts(&mut rng)];
    let caps = [pick(&mut rng, &[1, 2, 5, 1000]), pick(&mut rng, &[1, 2, 5, 1000])];
    let d01 = Arc::new(Mutex::new(Dir {
        cap: caps[0],
        ..Dir::default()
    }));
    let d10 = Arc::new(Mutex::new(Dir {
        cap: caps[1],
        ..Dir::default()
    }));
    let ws0 = Ws {
        name: "A",
        tx: d01.clone(),
        rx: d10.clone(),
        rx_done: false,
    };
    let ws1 = Ws {
        name: "B",
        tx: d10.clone(),
        rx: d01.clone(),
        rx_done: false,
    };
    let (mux0, task0) =
        Multiplexor::new_detailed::<_, std::time::Instant>(ws0, opts[0], IdRng { next: 1 });
    let (mux1, task1) =
        Multiplexor::new_detailed::<_, std::time::Instant>(ws1, opts[1], IdRng { next: 2 });
    let allow_drop = rng.random_bool(0.5);
    let drop_mux_at: Option<(usize, usize)> = if rng.random_range(0..4u32) == 0 {
        Some((rng.random_range(0..2usize), rng.random_range(50..1500usize)))
    } else {
        None
    };
    let with_noise = rng.random_bool(0.5);
    let w: W = Rc::new(RefCell::new(World {
        rng: SmallRng::seed_from_u64(cfg.seed ^ 0xdead_beef),
        drain: false,
        dirs: vec![[DirState::default(), DirState::default()]; nstreams],
        spawn: Vec::new(),
        log: Vec::new(),
        violation: None,
        allow_drop,
        mux_dropped: false,
    }));
    let muxes: [Rc<RefCell<Option<Rc<Multiplexor<IdRng>>>>>; 2] = [
        Rc::new(RefCell::new(Some(Rc::new(mux0)))),
        Rc::new(RefCell::new(Some(Rc::new(mux1)))),
    ];
    let task_result: [Rc<RefCell<Option<String>>>; 2] =
        [Rc::new(RefCell::new(None)), Rc::new(RefCell::new(None))];
    {
        let tr = task_result[0].clone();
        spawn(&w, "task0".into(), async move {
            let r = task0.into_task().await;
            *tr.borrow_mut() = Some(format!("{r:?}"));
        });
        let tr = task_result[1].clone();
        spawn(&w, "task1".into(), async move {
            let r = task1.into_task().await;
            *tr.borrow_mut() = Some(format!("{r:?}"));
        });
    }
    // openers
    let mut assign = vec![0usize; nstreams];
    for a in assign.iter_mut() {
        *a = rng.random_range(0..2usize);
    }
    for side in 0..2 {
        let mine: Vec<usize> = (0..nstreams).filter(|k| assign[*k] == side).collect();
        // one opener task per stream so that requests are concurrent
        for k in mine {
            let w2 = w.clone();
            let m = muxes[side].clone();
            spawn(&w, format!("open{k}@{side}"), async move {
                let Some(mux) = m.borrow().clone() else { return };
                let r = mux.new_stream_channel(b"host", k as u16).await;
                drop(mux);
                match r {
                    Ok(s) => {
                        w2.borrow_mut().log.push(format!("opened {k} at side {side}"));
                        let actor = StreamActor {
                            s: Some(s),
                            k,
                            side,
                            w: w2.clone(),
                            shutdown_done: false,
                            steps: 0,
                            lazy: w2.borrow_mut().rng.random_range(0..5u32) == 0,
                        };
                        spawn(&w2, format!("s{k}@{side}"), actor);
                    }
                    Err(e) => {
                        let dropped = w2.borrow().mux_dropped;
                        w2.borrow_mut().log.push(format!("open {k} failed: {e}"));
                        if !dropped {
                            violate(&w2, format!("open {k} failed: {e}"));
                        }
                    }
                }
            });
        }
        // acceptor
        {
            let w2 = w.clone();
            let m = muxes[side].clone();
            spawn(&w, format!("accept@{side}"), async move {
                loop {
                    let Some(mux) = m.borrow().clone() else { return };
                    // NB: holding the Rc across the await keeps the Multiplexor alive; the
                    // mux-drop event aborts this task instead
                    let r = mux.accept_stream_channel().await;
                    drop(mux);
                    match r {
                        Ok(s) => {
                            let k = s.dest_port as usize;
                            if &s.dest_host[..] != b"host" {
                                violate(&w2, format!("bad host {:?}", s.dest_host));
                            }
                            w2.borrow_mut().log.push(format!("accepted {k} at side {side}"));
                            let actor = StreamActor {
                                s: Some(s),
                                k,
                                side,
                                w: w2.clone(),
                                shutdown_done: false,
                                steps: 0,
                                lazy: w2.borrow_mut().rng.random_range(0..5u32) == 0,
                            };
                            spawn(&w2, format!("s{k}@{side}"), actor);
                        }
                        Err(_) => return,
                    }
                }
            });
        }
        if with_noise {
            // datagram noise
            let w2 = w.clone();
            let m = muxes[side].clone();
            spawn(&w, format!("dgram-send@{side}"), async move {
                let mut i = 0u32;
                loop {
                    if w2.borrow().drain || i > 200 {
                        return;
                    }
                    let Some(mux) = m.borrow().clone() else { return };
                    let len = w2.borrow_mut().rng.random_range(0..50usize);
                    let _ = mux
                        .send_datagram(Datagram {
                            flow_id: i,
                            target_host: bytes::Bytes::from_static(b"dg"),
                            target_port: 9,
                            data: bytes::Bytes::from(vec![0xEE; len]),
                        })
                        .await;
                    drop(mux);
                    i += 1;
                    YieldNow(false).await;
                }
            });
            let m = muxes[side].clone();
            spawn(&w, format!("dgram-recv@{side}"), async move {
                loop {
                    let Some(mux) = m.borrow().clone() else { return };
                    let r = mux.get_datagram().await;
                    drop(mux);
                    if r.is_err() {
                        return;
                    }
                }
            });
            if opts[1 - side] != opts[1 - side].bind_buffer_size(0) {
                // the peer accepts binds
                let m = muxes[side].clone();
                let w2 = w.clone();
                spawn(&w, format!("bind-req@{side}"), async move {
                    for _ in 0..5 {
                        if w2.borrow().drain {
                            return;
                        }
                        let Some(mux) = m.borrow().clone() else { return };
                        let _ = mux
                            .request_bind(b"0.0.0.0", 1, penguin_mux::frame::BindType::Stream)
                            .await;
                        drop(mux);
                        YieldNow(false).await;
                    }
                });
            }
            if opts[side] != opts[side].bind_buffer_size(0) {
                let m = muxes[side].clone();
                let w2 = w.clone();
                spawn(&w, format!("bind-resp@{side}"), async move {
                    loop {
                        let Some(mux) = m.borrow().clone() else { return };
                        let r = mux.next_bind_request().await;
                        drop(mux);
                        match r {
                            Ok(req) => {
                                let acc = w2.borrow_mut().rng.random_bool(0.5);
                                let _ = req.reply(acc);
                            }
                            Err(_) => return,
                        }
                    }
                });
            }
        }
    }

    // ---- run
    let mut slots: Vec<Slot> = Vec::new();
    let dirs = [d01.clone(), d10.clone()];
    let mut steps = 0usize;
    let drain_at = rng.random_range(100..4000usize);
    let mut phase = 0;
    loop {
        // absorb
        let new: Vec<_> = w.borrow_mut().spawn.drain(..).collect();
        for (name, fut) in new {
            slots.push(Slot {
                name,
                fut: Some(fut),
                flag: Arc::new(Flag(AtomicBool::new(true))),
            });
        }
        if let Some(v) = w.borrow().violation.clone() {
            return Err(fail_report(cfg, &w, &dirs, &v));
        }
        steps += 1;
        if steps > 3_000_000 {
            return Err(fail_report(cfg, &w, &dirs, "step limit (livelock?)"));
        }
        if let Some((side, at)) = drop_mux_at
            && steps == at
            && !w.borrow().drain
        {
            w.borrow_mut().mux_dropped = true;
            for pair in w.borrow_mut().dirs.iter_mut() {
                if pair[side].clean_shutdown {
                    pair[side].must_complete = true;
                }
            }
            w.borrow_mut().log.push(format!("=== DROP MUX side {side}"));
            // abort the tasks that hold the Rc across an await
            for s in slots.iter_mut() {
                let n = &s.name;
                if (n.starts_with("accept@")
                    || n.starts_with("dgram")
                    || n.starts_with("bind")
                    || n.starts_with("open"))
                    && n.ends_with(&format!("@{side}"))
                {
                    s.fut = None;
                }
            }
            let m = muxes[side].borrow_mut().take();
            if let Some(m) = m {
                assert_eq!(Rc::strong_count(&m), 1);
                drop(m);
            }
        }
        if !w.borrow().drain && rng.random_range(0..3000u32) == 0 {
            for s in slots.iter_mut() {
                if s.name.starts_with("open") && s.fut.is_some() {
                    w.borrow_mut().log.push(format!("=== CANCEL {}", s.name));
                    s.fut = None;
                    break;
                }
            }
        }
        let runnable: Vec<usize> = slots
            .iter()
            .enumerate()
            .filter(|(_, s)| s.fut.is_some() && s.flag.0.load(Ordering::SeqCst))
            .map(|(i, _)| i)
            .collect();
        let grantable: Vec<usize> = (0..2)
            .filter(|i| {
                let d = dirs[*i].lock().unwrap();
                d.q.len() > d.allowed
            })
            .collect();
        if (phase == 0 && steps >= drain_at) || (runnable.is_empty() && grantable.is_empty()) {
            if phase == 0 {
                phase = 1;
                w.borrow_mut().drain = true;
                w.borrow_mut().log.push("=== DRAIN".into());
                for s in &slots {
                    s.flag.0.store(true, Ordering::SeqCst);
                }
                continue;
            }
            if runnable.is_empty() && grantable.is_empty() {
                break;
            }
        }
        let total = runnable.len() + grantable.len();
        let c = rng.random_range(0..total);
        if c < runnable.len() {
            let i = runnable[c];
            let s = &mut slots[i];
            s.flag.0.store(false, Ordering::SeqCst);
            let waker = Waker::from(s.flag.clone());
            let mut cx = Context::from_waker(&waker);
            let mut fut = s.fut.take().unwrap();
            match fut.as_mut().poll(&mut cx) {
                Poll::Ready(()) => {}
                Poll::Pending => s.fut = Some(fut),
            }
        } else {
            let di = grantable[c - runnable.len()];
            let mut d = dirs[di].lock().unwrap();
            let room = d.q.len() - d.allowed;
            let n = rng.random_range(1..=room.min(4));
            d.allowed += n;
            if let Some(wk) = d.rx_waker.take() {
                wk.wake();
            }
        }
    }
    // ---- final checks
    let wb = w.borrow();
    let mux_dropped = wb.mux_dropped;
    for (k, pair) in wb.dirs.iter().enumerate() {
        for (wside, d) in pair.iter().enumerate() {
            if d.got > d.accepted {
                drop(wb);
                return Err(fail_report(cfg, &w, &dirs, &format!("stream {k} dir {wside}: got > accepted")));
            }
            let complete_expected = (d.clean_shutdown && !d.reader_dropped && d.reader_started && !mux_dropped)
                || (d.must_complete && !d.reader_dropped && d.reader_started);
            if complete_expected {
                if !d.reader_eof {
                    let msg = format!(
                        "stream {k} writer side {wside}: writer shut down cleanly ({} bytes) but the reader never reached EOF (got {}) {d:?}",
                        d.accepted, d.got
                    );
                    drop(wb);
                    return Err(fail_report(cfg, &w, &dirs, &msg));
                }
                if d.got != d.accepted {
                    let msg = format!(
                        "stream {k} writer side {wside}: clean shutdown after {} bytes, reader saw EOF after {} bytes {d:?}",
                        d.accepted, d.got
                    );
                    drop(wb);
                    return Err(fail_report(cfg, &w, &dirs, &msg));
                }
            }
        }
    }
    if cfg.verbose {
        for l in &wb.log {
            println!("{l}");
        }
        println!("task results: {:?} {:?}", task_result[0].borrow(), task_result[1].borrow());
        println!("dirs: {:#?}", wb.dirs);
    }
    Ok(())
}

fn fail_report(cfg: &Cfg, w: &W, dirs: &[Arc<Mutex<Dir>>; 2], msg: &str) -> String {
    let mut out = format!("seed {}: {msg}\n", cfg.seed);
    if cfg.verbose {
        let wb = w.borrow();
        for l in &wb.log {
            out.push_str(l);
            out.push('\n');
        }
        for d in dirs {
            let d = d.lock().unwrap();
            for l in &d.trace {
                out.push_str(l);
                out.push('\n');
            }
            out.push_str(&format!("  (queue {} allowed {})\n", d.q.len(), d.allowed));
        }
        out.push_str(&format!("{:#?}\n", wb.dirs));
    }
    out
}

struct YieldNow(bool);
impl Future for YieldNow {
    type Output = ();
    fn poll(mut self: Pin<&mut Self>, cx: &mut Context<'_>) -> Poll<()> {
        if self.0 {
            Poll::Ready(())
        } else {
            self.0 = true;
            cx.waker().wake_by_ref();
            Poll::Pending
        }
    }
}

#[test]
fn hunt_random() {
    let start: u64 = std::env::var("HUNT_START").ok().and_then(|s| s.parse().ok()).unwrap_or(0);
    let n: u64 = std::env::var("HUNT_N").ok().and_then(|s| s.parse().ok()).unwrap_or(2000);
    let verbose = std::env::var("HUNT_VERBOSE").is_ok();
    let mut fails = 0;
    for seed in start..start + n {
        if let Err(e) = run(&Cfg { seed, verbose }) {
            println!("FAIL {e}");
            fails += 1;
            if fails >= 10 {
                break;
            }
        }
    }
    assert_eq!(fails, 0);
}

// ---------------------------------------------------------------- multi-thread stress over tungstenite

mod mt {
    use super::{gen_byte, pick};
    use penguin_mux::config::Options;
    use penguin_mux::Multiplexor;
    use rand::rngs::SmallRng;
    use rand::{RngExt, SeedableRng};
    use std::sync::Arc;
    use tokio::io::{AsyncReadExt, AsyncWriteExt};
    use tokio_tungstenite::{WebSocketStream, tungstenite::protocol::Role};

    async fn writer<Wt: tokio::io::AsyncWrite + Unpin>(
        mut w: Wt,
        k: usize,
        side: usize,
        total: usize,
        seed: u64,
    ) {
        let mut r = SmallRng::seed_from_u64(seed);
        let mut pos = 0;
        while pos < total {
            let len = match r.random_range(0..6u32) {
                0 => 0,
                1 => 1,
                2 => r.random_range(1..100usize),
                3 => r.random_range(100..5000usize),
                4 => r.random_range(5000..70_000usize),
                _ => r.random_range(1..20usize),
            }
            .min(total - pos);
            let data: Vec<u8> = (0..len).map(|i| gen_byte(k, side, pos + i)).collect();
            if r.random_bool(0.3) {
                let cut = len / 2;
                let bufs = [std::io::IoSlice::new(&data[..cut]), std::io::IoSlice::new(&data[cut..])];
                let mut done = 0;
                // write_vectored may be partial for generic writers
                while done < len {
                    let n = if done == 0 {
                        w.write_vectored(&bufs).await.unwrap()
                    } else {
                        w.write(&data[done..]).await.unwrap()
                    };
                    done += n;
                    if len == 0 { break; }
                }
            } else {
                w.write_all(&data).await.unwrap();
            }
            pos += len;
            if r.random_range(0..8u32) == 0 {
                tokio::task::yield_now().await;
            }
        }
        w.shutdown().await.unwrap();
    }

    async fn reader<Rd: tokio::io::AsyncRead + Unpin>(
        mut rd: Rd,
        k: usize,
        wside: usize,
        total: usize,
        seed: u64,
    ) {
        let mut r = SmallRng::seed_from_u64(seed);
        let mut pos = 0;
        loop {
            let cap = match r.random_range(0..4u32) {
                0 => 1,
                1 => r.random_range(1..50usize),
                2 => r.random_range(50..5000usize),
                _ => 100_000,
            };
            let mut buf = vec![0u8; cap];
            let n = rd.read(&mut buf).await.unwrap();
            if n == 0 {
                break;
            }
            for (i, b) in buf[..n].iter().enumerate() {
                assert_eq!(*b, gen_byte(k, wside, pos + i), "stream {k} from side {wside} at {}", pos + i);
            }
            pos += n;
            if r.random_range(0..16u32) == 0 {
                tokio::time::sleep(std::time::Duration::from_micros(r.random_range(0..300u64))).await;
            }
        }
        assert_eq!(pos, total, "stream {k} from side {wside}: EOF after {pos} of {total}");
    }

    async fn one(seed: u64) {
        let mut rng = SmallRng::seed_from_u64(seed);
        let mss = pick(&mut rng, &[8usize, 64, 2048, 1 << 16]);
        let (c, s) = tokio::io::duplex(mss);
        let c = WebSocketStream::from_raw_socket(c, Role::Client, None).await;
        let s = WebSocketStream::from_raw_socket(s, Role::Server, None).await;
        let mk = |r: &mut SmallRng| {
            Options::new()
                .rwnd(pick(r, &[1, 2, 3, 8, 512]))
                .default_rwnd_threshold(pick(r, &[1, 2, 5, 256, u32::MAX]))
                .stream_buffer_size(pick(r, &[1, 16]))
        };
        let m0 = Arc::new(Multiplexor::new_with_opt(c, mk(&mut rng), None));
        let m1 = Arc::new(Multiplexor::new_with_opt(s, mk(&mut rng), None));
        let n = rng.random_range(1..12usize);
        let totals: Vec<[usize; 2]> = (0..n)
            .map(|_| {
                [
                    pick(&mut rng, &[0usize, 1, 1000, 100_000, 600_000]),
                    pick(&mut rng, &[0usize, 1, 1000, 100_000, 600_000]),
                ]
            })
            .collect();
        let bridge: Vec<bool> = (0..n).map(|_| rng.random_bool(0.4)).collect();
        let mut js = tokio::task::JoinSet::new();
        // side 1 accepts
        {
            let m1 = m1.clone();
            let totals = totals.clone();
            let bridge = bridge.clone();
            js.spawn(async move {
                let mut inner = tokio::task::JoinSet::new();
                for _ in 0..n {
                    let st = m1.accept_stream_channel().await.unwrap();
                    let k = st.dest_port as usize;
                    if bridge[k] {
                        let (local, far) = tokio::io::duplex(pick(&mut SmallRng::seed_from_u64(seed + k as u64), &[1usize, 100, 70_000]));
                        inner.spawn(async move {
                            st.into_copy_bidirectional(local).await.unwrap();
                        });
                        let (r, w) = tokio::io::split(far);
                        inner.spawn(writer(w, k, 1, totals[k][1], seed * 31 + k as u64));
                        inner.spawn(reader(r, k, 0, totals[k][0], seed * 37 + k as u64));
                    } else {
                        let (r, w) = tokio::io::split(st);
                        inner.spawn(writer(w, k, 1, totals[k][1], seed * 31 + k as u64));
                        inner.spawn(reader(r, k, 0, totals[k][0], seed * 37 + k as u64));
                    }
                }
                while let Some(r) = inner.join_next().await {
                    r.unwrap();
                }
            });
        }
        for k in 0..n {
            let m0 = m0.clone();
            let totals = totals.clone();
            js.spawn(async move {
                let st = m0.new_stream_channel(b"x", k as u16).await.unwrap();
                let (r, w) = tokio::io::split(st);
                let a = tokio::spawn(writer(w, k, 0, totals[k][0], seed * 41 + k as u64));
                let b = tokio::spawn(reader(r, k, 1, totals[k][1], seed * 43 + k as u64));
                a.await.unwrap();
                b.await.unwrap();
            });
        }
        while let Some(r) = js.join_next().await {
            r.unwrap();
        }
    }

    #[test]
    fn hunt_mt() {
        let start: u64 = std::env::var("HUNT_START").ok().and_then(|s| s.parse().ok()).unwrap_or(0);
        let n: u64 = std::env::var("HUNT_MT_N").ok().and_then(|s| s.parse().ok()).unwrap_or(20);
        for seed in start..start + n {
            let rt = tokio::runtime::Builder::new_multi_thread()
                .worker_threads(4)
                .enable_all()
                .build()
                .unwrap();
            let r = rt.block_on(async { tokio::time::timeout(std::time::Duration::from_secs(120), one(seed)).await });
            assert!(r.is_ok(), "seed {seed} timed out");
            println!("seed {seed} ok");
        }
    }
}
