use crate::Args;
use crate::report::Report;

pub mod c14;
pub mod c17;

pub fn dispatch(args: &Args) -> Report {
    match args.id.as_str() {
        "C14" => c14::run(args),
        "C17" => c17::run(args),
        other => panic!("no driver for {other}"),
    }
}
