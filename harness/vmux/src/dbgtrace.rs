//! A `tracing` subscriber that enables every span and event (what `RUST_LOG=trace` does in the shipped binaries) and
//! throws everything away. With it installed the field expressions of `#[tracing::instrument(fields(..))]` spans are
//! evaluated -- code that does not run at all under the default "nothing enabled" dispatcher the other cases use.

use std::sync::atomic::{AtomicU64, Ordering};
use tracing::span::{Attributes, Id, Record};
use tracing::{Event, Metadata, Subscriber};

#[derive(Default)]
pub struct AllOn {
    next: AtomicU64,
    pub spans: AtomicU64,
    pub events: AtomicU64,
}

impl Subscriber for AllOn {
    fn enabled(&self, _: &Metadata<'_>) -> bool {
        true
    }
    fn new_span(&self, _: &Attributes<'_>) -> Id {
        self.spans.fetch_add(1, Ordering::Relaxed);
        Id::from_u64(self.next.fetch_add(1, Ordering::Relaxed) + 1)
    }
    fn record(&self, _: &Id, _: &Record<'_>) {}
    fn record_follows_from(&self, _: &Id, _: &Id) {}
    fn event(&self, _: &Event<'_>) {
        self.events.fetch_add(1, Ordering::Relaxed);
    }
    fn enter(&self, _: &Id) {}
    fn exit(&self, _: &Id) {}
}

/// Run `f` with every span and event enabled on this thread.
pub fn with_all_on<R>(f: impl FnOnce() -> R) -> (R, u64) {
    let sub = std::sync::Arc::new(AllOn::default());
    let d = tracing::Dispatch::from(sub.clone());
    let r = tracing::dispatcher::with_default(&d, f);
    (r, sub.spans.load(Ordering::Relaxed) + sub.events.load(Ordering::Relaxed))
}
