//! Reference encoder/decoder of penguin-v7 frames, written from PROTOCOL.md
//! only (never from `frame.rs`).  Used as the oracle of C09 and by the wire
//! monitor.

#[derive(Clone, Debug, PartialEq, Eq, Hash)]
pub enum RFrame {
    Connect { id: u32, rwnd: u32, port: u16, host: Vec<u8> },
    Acknowledge { id: u32, n: u32 },
    Reset { id: u32 },
    Finish { id: u32 },
    Push { id: u32, data: Vec<u8> },
    Bind { id: u32, btype: u8, port: u16, host: Vec<u8> },
    Datagram { id: u32, port: u16, host: Vec<u8>, data: Vec<u8> },
}

#[derive(Clone, Copy, Debug, PartialEq, Eq)]
pub enum RErr {
    TooShort,
    Version,
    OpCode,
    BindType,
}

pub const VER: u8 = 7;

impl RFrame {
    pub fn id(&self) -> u32 {
        match self {
            RFrame::Connect { id, .. }
            | RFrame::Acknowledge { id, .. }
            | RFrame::Reset { id }
            | RFrame::Finish { id }
            | RFrame::Push { id, .. }
            | RFrame::Bind { id, .. }
            | RFrame::Datagram { id, .. } => *id,
        }
    }
    pub fn op(&self) -> u8 {
        match self {
            RFrame::Connect { .. } => 0,
            RFrame::Acknowledge { .. } => 1,
            RFrame::Reset { .. } => 2,
            RFrame::Finish { .. } => 3,
            RFrame::Push { .. } => 4,
            RFrame::Bind { .. } => 5,
            RFrame::Datagram { .. } => 6,
        }
    }
    pub fn name(&self) -> &'static str {
        ["Connect", "Acknowledge", "Reset", "Finish", "Push", "Bind", "Datagram"][usize::from(self.op())]
    }
}

/// Layout of PROTOCOL.md: `ver<<4|op`, flow id (u32 BE), then the fields of
/// the operation in the order listed there, integers in network byte order.
pub fn encode(f: &RFrame) -> Vec<u8> {
    let mut v = vec![VER << 4 | f.op()];
    v.extend_from_slice(&f.id().to_be_bytes());
    match f {
        RFrame::Connect { rwnd, port, host, .. } => {
            v.extend_from_slice(&rwnd.to_be_bytes());
            v.extend_from_slice(&port.to_be_bytes());
            v.extend_from_slice(host);
        }
        RFrame::Acknowledge { n, .. } => v.extend_from_slice(&n.to_be_bytes()),
        RFrame::Reset { .. } | RFrame::Finish { .. } => {}
        RFrame::Push { data, .. } => v.extend_from_slice(data),
        RFrame::Bind { btype, port, host, .. } => {
            v.push(*btype);
            v.extend_from_slice(&port.to_be_bytes());
            v.extend_from_slice(host);
        }
        RFrame::Datagram { port, host, data, .. } => {
            v.push(u8::try_from(host.len()).expect("datagram host longer than 255"));
            v.extend_from_slice(&port.to_be_bytes());
            v.extend_from_slice(host);
            v.extend_from_slice(data);
        }
    }
    v
}

fn be32(b: &[u8]) -> u32 {
    u32::from_be_bytes([b[0], b[1], b[2], b[3]])
}
fn be16(b: &[u8]) -> u16 {
    u16::from_be_bytes([b[0], b[1]])
}

/// A byte string is a valid frame iff: at least 5 bytes; version nibble 7 (or
/// 0, the documented lenient form); opcode 0..=6; the fixed fields of the
/// operation are present; bind type is 1 or 3; a datagram's host length fits
/// in what follows the port.
pub fn decode(b: &[u8]) -> Result<RFrame, RErr> {
    if b.len() < 5 {
        return Err(RErr::TooShort);
    }
    let ver = b[0] >> 4;
    if ver != VER && ver != 0 {
        return Err(RErr::Version);
    }
    let op = b[0] & 0x0f;
    if op > 6 {
        return Err(RErr::OpCode);
    }
    let id = be32(&b[1..5]);
    let p = &b[5..];
    Ok(match op {
        0 => {
            if p.len() < 6 {
                return Err(RErr::TooShort);
            }
            RFrame::Connect { id, rwnd: be32(p), port: be16(&p[4..]), host: p[6..].to_vec() }
        }
        1 => {
            if p.len() < 4 {
                return Err(RErr::TooShort);
            }
            RFrame::Acknowledge { id, n: be32(p) }
        }
        2 => RFrame::Reset { id },
        3 => RFrame::Finish { id },
        4 => RFrame::Push { id, data: p.to_vec() },
        5 => {
            if p.len() < 3 {
                return Err(RErr::TooShort);
            }
            if p[0] != 1 && p[0] != 3 {
                return Err(RErr::BindType);
            }
            RFrame::Bind { id, btype: p[0], port: be16(&p[1..]), host: p[3..].to_vec() }
        }
        6 => {
            if p.len() < 3 {
                return Err(RErr::TooShort);
            }
            let hl = usize::from(p[0]);
            if p.len() < 3 + hl {
                return Err(RErr::TooShort);
            }
            RFrame::Datagram { id, port: be16(&p[1..]), host: p[3..3 + hl].to_vec(), data: p[3 + hl..].to_vec() }
        }
        _ => unreachable!(),
    })
}
