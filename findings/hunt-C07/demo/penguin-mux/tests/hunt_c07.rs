//! C07 hunt demo: one `new_stream_channel` call produces TWO streams on the accepting
//! endpoint (and, with `max_flow_id_retries == 1`, fails with `FlowIdRejected` although the
//! peer never rejected it) when the requester re-draws a flow id that BOTH applications have
//! already let go of, while the peer's closing frame of the old flow (`Reset` of a dropped
//! stream, or `Finish` of a gracefully closed one) is still on the wire.
//!
//! Only the public API is used: `Multiplexor::new_detailed` with a scripted `Rng` and a
//! channel-backed `WebSocket` whose B->A direction can be paused.
//
// SPDX-License-Identifier: Apache-2.0 OR GPL-3.0-or-later

use bytes::Bytes;
use penguin_mux::config::Options;
use penguin_mux::frame::{Frame, OpCode};
use penguin_mux::ws::{Message, WebSocket};
use penguin_mux::{Error, Multiplexor, MuxStream};
use std::collections::VecDeque;
use std::convert::Infallible;
use std::sync::{Arc, Mutex};
use std::task::{Context, Poll};
use std::time::Duration;
use tokio::io::{AsyncReadExt, AsyncWriteExt};
use tokio::sync::{mpsc, watch};

const X: u32 = 0x1111_1111;
const Y: u32 = 0x2222_2222;

/// Flow ids come out exactly as scripted; afterwards an increasing sequence.
struct ScriptRng {
    script: VecDeque<u32>,
    next: u32,
}

impl ScriptRng {
    fn new(script: &[u32]) -> Self {
        Self {
            script: script.iter().copied().collect(),
            next: 0x7000_0000,
        }
    }
}

impl rand::TryRng for ScriptRng {
    type Error = Infallible;
    fn try_next_u32(&mut self) -> Result<u32, Infallible> {
        Ok(self.script.pop_front().unwrap_or_else(|| {
            self.next += 1;
            self.next
        }))
    }
    fn try_next_u64(&mut self) -> Result<u64, Infallible> {
        Ok(u64::from(self.try_next_u32()?))
    }
    fn try_fill_bytes(&mut self, dst: &mut [u8]) -> Result<(), Infallible> {
        dst.fill(0);
        Ok(())
    }
}

/// A `WebSocket` made of two unbounded channels.
struct ChanWs {
    tx: Option<mpsc::UnboundedSender<Message>>,
    rx: mpsc::UnboundedReceiver<Message>,
}

impl WebSocket for ChanWs {
    fn poll_ready_unpin(&mut self, _cx: &mut Context<'_>) -> Poll<Result<(), Error>> {
        Poll::Ready(if self.tx.is_some() {
            Ok(())
        } else {
            Err(Error::Closed)
        })
    }
    fn start_send_unpin(&mut self, item: Message) -> Result<(), Error> {
        self.tx
            .as_ref()
            .ok_or(Error::Closed)?
            .send(item)
            .or(Err(Error::Closed))
    }
    fn poll_flush_unpin(&mut self, _cx: &mut Context<'_>) -> Poll<Result<(), Error>> {
        Poll::Ready(Ok(()))
    }
    fn poll_close_unpin(&mut self, _cx: &mut Context<'_>) -> Poll<Result<(), Error>> {
        self.tx.take();
        Poll::Ready(Ok(()))
    }
    fn poll_next_unpin(&mut self, cx: &mut Context<'_>) -> Poll<Option<Result<Message, Error>>> {
        self.rx.poll_recv(cx).map(|m| m.map(Ok))
    }
}

#[derive(Clone, PartialEq, Eq)]
struct Seen {
    /// "A>B" or "B>A"
    dir: &'static str,
    /// "sent" when the endpoint put it on the wire, "dlvd" when the other end may read it
    stage: &'static str,
    op: OpCode,
    id: u32,
}

impl std::fmt::Debug for Seen {
    fn fmt(&self, f: &mut std::fmt::Formatter<'_>) -> std::fmt::Result {
        let Self { dir, stage, op, id } = self;
        write!(f, "{dir} {stage} {op:?}({id:08x})")
    }
}

type Log = Arc<Mutex<Vec<Seen>>>;

fn note(log: &Log, dir: &'static str, stage: &'static str, msg: &Message) {
    if let Message::Binary(b) = msg {
        let frame = Frame::try_from(b.clone()).expect("valid frame");
        log.lock().unwrap().push(Seen {
            dir,
            stage,
            op: frame.opcode(),
            id: frame.id,
        });
    }
}

/// One direction of the wire: ordered, lossless, and it can be paused.
fn wire(
    dir: &'static str,
    mut from: mpsc::UnboundedReceiver<Message>,
    to: mpsc::UnboundedSender<Message>,
    mut open: watch::Receiver<bool>,
    log: Log,
) {
    // Stage 1: the endpoint has put the message on the wire.
    let (held_tx, mut held_rx) = mpsc::unbounded_channel();
    let log1 = log.clone();
    tokio::spawn(async move {
        while let Some(msg) = from.recv().await {
            note(&log1, dir, "sent", &msg);
            if held_tx.send(msg).is_err() {
                break;
            }
        }
    });
    // Stage 2: the wire delivers it, unless paused.
    tokio::spawn(async move {
        while let Some(msg) = held_rx.recv().await {
            if open.wait_for(|o| *o).await.is_err() {
                break;
            }
            note(&log, dir, "dlvd", &msg);
            if to.send(msg).is_err() {
                break;
            }
        }
    });
}

struct Rig {
    a: Arc<Multiplexor<ScriptRng>>,
    b: Multiplexor<ScriptRng>,
    a_to_b_open: watch::Sender<bool>,
    b_to_a_open: watch::Sender<bool>,
    log: Log,
}

fn rig(a_ids: &[u32], a_retries: usize) -> Rig {
    rig_with(a_ids, Options::new().max_flow_id_retries(a_retries), Options::new())
}

fn rig_with(a_ids: &[u32], a_options: Options, b_options: Options) -> Rig {
    rig_full(a_ids, a_options, &[], b_options)
}

fn rig_full(a_ids: &[u32], a_options: Options, b_ids: &[u32], b_options: Options) -> Rig {
    let (a_tx, a_out) = mpsc::unbounded_channel();
    let (a_in, a_rx) = mpsc::unbounded_channel();
    let (b_tx, b_out) = mpsc::unbounded_channel();
    let (b_in, b_rx) = mpsc::unbounded_channel();
    let (a_to_b_open, a_to_b_gate) = watch::channel(true);
    let (b_to_a_open, b_to_a_gate) = watch::channel(true);
    let log: Log = Arc::default();
    wire("A>B", a_out, b_in, a_to_b_gate, log.clone());
    wire("B>A", b_out, a_in, b_to_a_gate, log.clone());

    let (a, a_task) = Multiplexor::new_detailed::<_, std::time::Instant>(
        ChanWs {
            tx: Some(a_tx),
            rx: a_rx,
        },
        a_options,
        ScriptRng::new(a_ids),
    );
    a_task.spawn(None);
    let (b, b_task) = Multiplexor::new_detailed::<_, std::time::Instant>(
        ChanWs {
            tx: Some(b_tx),
            rx: b_rx,
        },
        b_options,
        ScriptRng::new(b_ids),
    );
    b_task.spawn(None);
    Rig {
        a: Arc::new(a),
        b,
        a_to_b_open,
        b_to_a_open,
        log,
    }
}

async fn wait_log(log: &Log, what: &Seen) {
    wait_log_after(log, 0, what).await;
}

async fn wait_log_after(log: &Log, mark: usize, what: &Seen) {
    for _ in 0..2000 {
        if log.lock().unwrap()[mark..].contains(what) {
            return;
        }
        tokio::time::sleep(Duration::from_millis(1)).await;
    }
    panic!("never saw {what:?}; log = {:#?}", log.lock().unwrap());
}

fn seen(dir: &'static str, stage: &'static str, op: OpCode, id: u32) -> Seen {
    Seen { dir, stage, op, id }
}

/// How the old flow `X` is closed by both applications, with B's last frame held on the wire.
#[derive(Clone, Copy)]
enum Close {
    /// Both applications just drop their `MuxStream` (each side sends `Reset`)
    Drop,
    /// A: `shutdown()` then drop. B: reads EOF, `shutdown()`, drop (each side sends `Finish`)
    Graceful,
}

/// Open flow X, have both applications let go of it with B's closing frame still on the
/// wire, and then make ONE new request on A whose first id is X again.
/// Returns (result of A's single request, streams B's application got for it within 300 ms).
async fn one_request_after_close(
    rig: &Rig,
    how: Close,
) -> (Result<MuxStream, Error>, Vec<MuxStream>) {
    let Rig {
        a,
        b,
        b_to_a_open,
        log,
        ..
    } = rig;
    // An ordinary first stream on X.
    let mut s1 = a.new_stream_channel(b"first.example", 1111).await.unwrap();
    let mut t1 = b.accept_stream_channel().await.unwrap();
    assert_eq!(t1.dest_host, Bytes::from_static(b"first.example"));
    assert_eq!(t1.dest_port, 1111);

    // From now on whatever B sends stays on the wire for a while.
    b_to_a_open.send(false).unwrap();
    match how {
        Close::Drop => {
            drop(t1);
            wait_log(log, &seen("B>A", "sent", OpCode::Reset, X)).await;
            drop(s1);
            wait_log(log, &seen("A>B", "dlvd", OpCode::Reset, X)).await;
        }
        Close::Graceful => {
            s1.shutdown().await.unwrap();
            drop(s1);
            let mut buf = [0u8; 8];
            assert_eq!(t1.read(&mut buf).await.unwrap(), 0, "B reads EOF");
            t1.shutdown().await.unwrap();
            drop(t1);
            wait_log(log, &seen("B>A", "sent", OpCode::Finish, X)).await;
        }
    }
    // Both applications have dropped their ends of X, and both flow tables have freed it.
    tokio::time::sleep(Duration::from_millis(20)).await;

    // ONE request. A's generator yields X again (probability 2^-32 with the real one).
    let mark = log.lock().unwrap().len();
    let requester = {
        let a = a.clone();
        tokio::spawn(async move { a.new_stream_channel(b"second.example", 2222).await })
    };
    let first_id = wait_connect_after(log, mark).await;
    // B accepts it: the id is free on B, this is a perfectly good new stream.
    let mut accepted = Vec::new();
    let u1 = tokio::time::timeout(Duration::from_secs(2), b.accept_stream_channel())
        .await
        .expect("B accepts the request")
        .unwrap();
    assert_eq!(u1.dest_host, Bytes::from_static(b"second.example"));
    assert_eq!(u1.dest_port, 2222);
    accepted.push(u1);
    wait_log_after(log, mark, &seen("B>A", "sent", OpCode::Acknowledge, first_id)).await;

    // The wire delivers: first the closing frame of the OLD flow X, then B's Acknowledge.
    b_to_a_open.send(true).unwrap();
    let result = tokio::time::timeout(Duration::from_secs(2), requester)
        .await
        .expect("request completes")
        .unwrap();
    // Anything else B's application is handed for this single request?
    while let Ok(Ok(more)) =
        tokio::time::timeout(Duration::from_millis(300), b.accept_stream_channel()).await
    {
        accepted.push(more);
    }
    (result, accepted)
}

/// Wait for the first `Connect` that reaches B after position `mark` of the log; its flow id.
async fn wait_connect_after(log: &Log, mark: usize) -> u32 {
    wait_connect_stage_after(log, mark, "dlvd").await
}

async fn wait_connect_stage_after(log: &Log, mark: usize, stage: &'static str) -> u32 {
    for _ in 0..2000 {
        if let Some(s) = log.lock().unwrap()[mark..]
            .iter()
            .find(|s| s.dir == "A>B" && s.stage == stage && s.op == OpCode::Connect)
        {
            return s.id;
        }
        tokio::time::sleep(Duration::from_millis(1)).await;
    }
    panic!("no Connect; log = {:#?}", log.lock().unwrap());
}

/// B put no `Reset` on the wire after it received a `Connect` of the request under test
/// (the first `Connect` after the one of the preparatory stream).
fn b_never_rejected(log: &Log) {
    let log = log.lock().unwrap();
    let is_connect = |s: &Seen| s.dir == "A>B" && s.stage == "dlvd" && s.op == OpCode::Connect;
    let at = log.iter().position(is_connect).unwrap() + 1;
    let at = at + log[at..].iter().position(is_connect).unwrap();
    assert!(
        !log[at..]
            .iter()
            .any(|s| s.dir == "B>A" && s.stage == "sent" && s.op == OpCode::Reset),
        "B did send a Reset: {log:#?}"
    );
}

async fn check_exactly_one_stream(how: Close) {
    let rig = rig(&[X, X, Y], 3);
    let (result, accepted) = one_request_after_close(&rig, how).await;
    b_never_rejected(&rig.log);
    let mut s2 = result.expect("the request succeeds");
    let targets: Vec<_> = accepted
        .iter()
        .map(|s| (s.dest_host.clone(), s.dest_port))
        .collect();
    // "Each successful stream request yields exactly one stream on each endpoint"
    assert_eq!(
        accepted.len(),
        1,
        "one new_stream_channel() call made B's application accept {} streams: {targets:?}\nwire: {:#?}",
        accepted.len(),
        rig.log.lock().unwrap()
    );
    // and that one stream is the one the requester holds
    s2.write_all(b"ping").await.unwrap();
    let mut buf = [0u8; 4];
    let mut u = accepted.into_iter().next().unwrap();
    tokio::time::timeout(Duration::from_secs(2), u.read_exact(&mut buf))
        .await
        .expect("data arrives")
        .unwrap();
    assert_eq!(&buf, b"ping");
}

#[tokio::test]
async fn one_request_one_stream_after_both_sides_dropped_the_old_flow() {
    check_exactly_one_stream(Close::Drop).await;
}

#[tokio::test]
async fn one_request_one_stream_after_both_sides_finished_the_old_flow() {
    check_exactly_one_stream(Close::Graceful).await;
}

#[tokio::test]
async fn request_not_rejected_by_peer_does_not_fail_with_flow_id_rejected() {
    // max_flow_id_retries = 1: a single attempt.
    let rig = rig(&[X, X, Y], 1);
    let (result, accepted) = one_request_after_close(&rig, Close::Drop).await;
    b_never_rejected(&rig.log);
    assert_eq!(accepted.len(), 1);
    // B accepted the Connect (Acknowledge on the wire, stream handed to B's application)
    // and never sent a Reset for it, so the request must not report a rejection.
    assert!(
        result.is_ok(),
        "B accepted the stream, yet the requester got {:?}\nwire: {:#?}",
        result.as_ref().err(),
        rig.log.lock().unwrap()
    );
}

// ---------------------------------------------------------------------------------------
// Finding 2 (adjacent to the recorded "late Acknowledge crosses the new Connect" issue, but
// not limited to frames that cross, and repairable locally): a `MuxStream` whose flow the
// peer has already reset -- the task has processed the `Reset` and freed the id -- keeps
// emitting flow-control `Acknowledge` frames for that id whenever the application reads the
// frames still buffered in it.
// ---------------------------------------------------------------------------------------

async fn wait_log_n(log: &Log, what: &Seen, n: usize) {
    for _ in 0..2000 {
        if log.lock().unwrap().iter().filter(|s| *s == what).count() >= n {
            return;
        }
        tokio::time::sleep(Duration::from_millis(1)).await;
    }
    panic!("never saw {n} x {what:?}; log = {:#?}", log.lock().unwrap());
}

#[tokio::test]
async fn dead_stream_does_not_answer_a_later_connect_on_its_id() {
    const RWND_B: u32 = 4;
    let rig = rig_with(
        &[X, X],
        Options::new().rwnd(8).default_rwnd_threshold(2),
        Options::new().rwnd(RWND_B).default_rwnd_threshold(2),
    );
    let Rig {
        a,
        b,
        a_to_b_open,
        log,
        ..
    } = &rig;
    let mut s1 = a.new_stream_channel(b"first.example", 1111).await.unwrap();
    let mut t1 = b.accept_stream_channel().await.unwrap();
    // Two frames that B's application does not read yet
    s1.write_all(b"a").await.unwrap();
    s1.write_all(b"b").await.unwrap();
    wait_log_n(log, &seen("A>B", "dlvd", OpCode::Push, X), 2).await;
    // A's application aborts the stream. B's task processes the Reset and frees X.
    drop(s1);
    wait_log(log, &seen("A>B", "dlvd", OpCode::Reset, X)).await;
    tokio::time::sleep(Duration::from_millis(20)).await;

    // A's next request draws X again; its Connect is slow to arrive.
    a_to_b_open.send(false).unwrap();
    let mark = log.lock().unwrap().len();
    let mut requester = {
        let a = a.clone();
        tokio::spawn(async move { a.new_stream_channel(b"second.example", 2222).await })
    };
    wait_connect_stage_after(log, mark, "sent").await;

    // Long after the Reset was processed, B's application gets around to draining the
    // dead stream (as any reader does before it sees EOF).
    let mut buf = [0u8; 1];
    assert_eq!(t1.read(&mut buf).await.unwrap(), 1);
    assert_eq!(t1.read(&mut buf).await.unwrap(), 1);
    assert_eq!(t1.read(&mut buf).await.unwrap(), 0, "then EOF");

    // B has not even received the Connect, so the request cannot have been answered.
    let early = tokio::time::timeout(Duration::from_millis(300), &mut requester).await;
    assert!(
        early.is_err(),
        "new_stream_channel() returned {:?} before the peer received the Connect\nwire: {:#?}",
        early.unwrap().unwrap().map(|_| "a stream"),
        log.lock().unwrap()
    );

    // The Connect arrives, B accepts.
    a_to_b_open.send(true).unwrap();
    let _u1 = b.accept_stream_channel().await.unwrap();
    let mut s2 = requester.await.unwrap().unwrap();
    // "each side's initial send credit equals the window the other side advertised":
    // B's application reads nothing, so exactly RWND_B writes can complete.
    let mut completed = 0;
    while tokio::time::timeout(Duration::from_millis(200), s2.write_all(b"x"))
        .await
        .is_ok_and(|r| r.is_ok())
    {
        completed += 1;
        assert!(completed < 100);
    }
    assert_eq!(completed, RWND_B);
}

/// Same root cause, but the endpoint that re-draws the id is the one whose application still
/// holds the dead stream (its peer has dropped its end, and both flow tables have freed X).
#[tokio::test]
async fn dead_stream_does_not_grant_credit_on_a_newer_flow_with_its_id() {
    const RWND_B: u32 = 4;
    let rig = rig_full(
        &[X],
        Options::new().rwnd(8).default_rwnd_threshold(2),
        &[X],
        Options::new().rwnd(RWND_B).default_rwnd_threshold(2),
    );
    let Rig { a, b, log, .. } = &rig;
    let mut s1 = a.new_stream_channel(b"first.example", 1111).await.unwrap();
    let mut t1 = b.accept_stream_channel().await.unwrap();
    s1.write_all(b"a").await.unwrap();
    s1.write_all(b"b").await.unwrap();
    wait_log_n(log, &seen("A>B", "dlvd", OpCode::Push, X), 2).await;
    drop(s1);
    wait_log(log, &seen("A>B", "dlvd", OpCode::Reset, X)).await;
    tokio::time::sleep(Duration::from_millis(20)).await;

    // B opens a stream of its own; X is free on both ends and B's generator yields it.
    let mark = log.lock().unwrap().len();
    let (s3, v1) = tokio::join!(
        b.new_stream_channel(b"third.example", 3333),
        a.accept_stream_channel()
    );
    let _s3 = s3.unwrap();
    let mut v1 = v1.unwrap();
    assert_eq!(v1.dest_host, Bytes::from_static(b"third.example"));
    wait_log_after(log, mark, &seen("A>B", "dlvd", OpCode::Acknowledge, X)).await;

    // B's application drains the dead stream.
    let mut buf = [0u8; 1];
    assert_eq!(t1.read(&mut buf).await.unwrap(), 1);
    assert_eq!(t1.read(&mut buf).await.unwrap(), 1);
    assert_eq!(t1.read(&mut buf).await.unwrap(), 0, "then EOF");
    tokio::time::sleep(Duration::from_millis(50)).await;

    // B advertised RWND_B in its Connect and its application reads nothing from the new
    // stream, so exactly RWND_B writes can complete on A's end.
    let mut completed = 0;
    while tokio::time::timeout(Duration::from_millis(200), v1.write_all(b"x"))
        .await
        .is_ok_and(|r| r.is_ok())
    {
        completed += 1;
        assert!(completed < 100);
    }
    assert_eq!(
        completed,
        RWND_B,
        "writes that completed against a window of {RWND_B}\nwire: {:#?}",
        log.lock().unwrap()
    );
}
