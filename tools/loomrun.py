"""C12: run the in-crate loom models (penguin-mux/src/verif_loom.rs), one subprocess per model."""
import json
import os
import re
import subprocess
import time

REPO = os.environ.get("VERIF_REPO", "/repo")
TARGET = os.environ.get("VERIF_LOOM_TARGET", os.path.join(os.path.dirname(os.path.dirname(os.path.abspath(__file__))), "harness", "target-loom"))
MODELS_C12 = [
    "m1_writer_vs_acknowledge",
    "m2_writer_vs_close",
    "m3_two_writes_vs_acknowledge",
    "m4_writer_vs_acknowledge_vs_close",
    "m5_shutdown_vs_close",
    "m6_writer_with_credit_vs_close",
    "m8_three_writes_two_acknowledges",
    "m9_writer_vs_acknowledge_then_close",
    "m10_two_writers_one_credit",
    "m11_writer_vs_two_granting_threads",
    "m12_push_frames_vs_two_granting_threads",
    "m13_writer_vs_two_grants_vs_close",
    "m14_five_writes_three_grants",
    "m15_shutdown_vs_close_vs_grant",
    "m16_two_parking_writers_one_credit_vs_grant",
    "m17_two_parking_writers_one_credit_vs_close",
    "m22_two_writers_no_credit",
    "m24_drop_notification_vs_handle_release",
    "m25_task_acknowledge_vs_flow_id_allocation",
    "m18_parked_writer_vs_local_shutdown",
    "m19_bridge_waits_for_credit_vs_acknowledge",
    "m20_bridge_waits_for_credit_vs_close",
    "m21_bridge_vs_acknowledge_vs_close",
]
# Models whose unbounded DPOR search is expensive: preemption bounds per tier (None = unbounded).
# Measured on the unchanged tree: m12 unbounded 4.1e5 interleavings / 18 s; m14 unbounded 1.2e7 / 410 s;
# m13 (four threads) bound 3: 4.8e4 / 3 s, bound 4: 4.5e5 / 27 s, bound 5: 3.4e6 / 186 s, unbounded: not finished in 600 s.
DEEP_BOUNDS = {
    "m12_push_frames_vs_two_granting_threads": {"quick": [3], "thorough": [None]},
    "m13_writer_vs_two_grants_vs_close": {"quick": [3], "thorough": [5]},
    "m14_five_writes_three_grants": {"quick": [3], "thorough": [None]},
}
MODELS_C07 = ["m7_concurrent_flow_id_allocation"]
# an abort must reach a writer parked on credit (part of C06's decision: sub-poll interleavings)
MODELS_C06 = ["m2_writer_vs_close", "m6_writer_with_credit_vs_close", "m9_writer_vs_acknowledge_then_close", "m24_drop_notification_vs_handle_release"]
# every write completes: a writer parked on credit is woken by every grant (part of C04's decision: sub-poll interleavings)
MODELS_C04 = ["m1_writer_vs_acknowledge", "m3_two_writes_vs_acknowledge", "m8_three_writes_two_acknowledges", "m11_writer_vs_two_granting_threads", "m19_bridge_waits_for_credit_vs_acknowledge"]
# the bridge parked on credit is woken by a grant and by a close (part of C13's decision: sub-poll interleavings)
MODELS_C13 = ["m19_bridge_waits_for_credit_vs_acknowledge", "m20_bridge_waits_for_credit_vs_close", "m21_bridge_vs_acknowledge_vs_close"]
# every accepted write is exactly one Push on the queue, in order, and takes exactly one unit of credit (part of C02's
# decision: a credit that is lost or counted twice under a racing grant ends in an overrun, a Reset and truncated data)
MODELS_C02 = ["m3_two_writes_vs_acknowledge", "m8_three_writes_two_acknowledges", "m12_push_frames_vs_two_granting_threads"]
# credit conservation under racing grants (part of C03's decision)
MODELS_C03 = ["m1_writer_vs_acknowledge", "m3_two_writes_vs_acknowledge", "m4_writer_vs_acknowledge_vs_close", "m8_three_writes_two_acknowledges", "m22_two_writers_no_credit"]


def build():
    env = dict(os.environ)
    env["RUSTFLAGS"] = "--cfg loom --cfg penguin_rs_verif"
    env["CARGO_TARGET_DIR"] = TARGET
    env["CARGO_NET_OFFLINE"] = "true"
    # the repository's release profile uses fat LTO; not needed here
    env["CARGO_PROFILE_RELEASE_LTO"] = "false"
    env["CARGO_PROFILE_RELEASE_CODEGEN_UNITS"] = "16"
    env["CARGO_PROFILE_RELEASE_STRIP"] = "false"
    p = subprocess.run(
        ["cargo", "test", "-p", "penguin-mux", "--lib", "--release", "--offline", "--no-run", "--message-format=json"],
        cwd=REPO, env=env, stdout=subprocess.PIPE, stderr=subprocess.PIPE, text=True)
    exe = None
    for line in p.stdout.splitlines():
        try:
            m = json.loads(line)
        except ValueError:
            continue
        if m.get("reason") == "compiler-artifact" and m.get("executable") and m.get("target", {}).get("name") == "penguin_mux":
            exe = m["executable"]
    if p.returncode != 0 or not exe:
        return None, p.stderr[-4000:]
    return exe, ""


def run_model(exe, model, preemptions, timeout):
    env = dict(os.environ)
    env.pop("LOOM_MAX_PREEMPTIONS", None)
    if preemptions is not None:
        env["LOOM_MAX_PREEMPTIONS"] = str(preemptions)
    env["RUST_BACKTRACE"] = "0"
    t0 = time.time()
    try:
        p = subprocess.run([exe, f"verif_loom::{model}", "--exact", "--nocapture", "--test-threads=1"],
                           env=env, stdout=subprocess.PIPE, stderr=subprocess.STDOUT, text=True, timeout=timeout)
        out, rc, timed_out = p.stdout, p.returncode, False
    except subprocess.TimeoutExpired as e:
        out, rc, timed_out = (e.stdout or b"").decode(errors="replace") if isinstance(e.stdout, bytes) else (e.stdout or ""), -1, True
    dt = time.time() - t0
    m = re.search(r"VERIF_LOOM model=(\S+) iterations=(\d+) outcomes=(\d+) (.*)", out)
    ran = re.search(r"running (\d+) test", out)
    res = {"model": model, "preemption_bound": preemptions if preemptions is not None else "unbounded",
           "wall_s": round(dt, 3), "timed_out": timed_out, "exit": rc}
    if ran and ran.group(1) == "0":
        res["missing"] = True
        return res
    if m and rc == 0:
        res.update(ok=True, iterations=int(m.group(2)), outcomes=int(m.group(3)), outcome_set=m.group(4)[:300])
    elif not timed_out:
        msgs = [l.strip() for l in out.splitlines() if "panicked at" in l or l.startswith("deadlock") or "assertion" in l or "must" in l]
        detail = [l.strip() for l in out.splitlines() if l.strip() and not l.startswith(" ") and "stack backtrace" not in l and "panicked at" not in l and "running" not in l]
        res.update(ok=False, message=" | ".join((detail or msgs)[:3])[:600])
    return res


def run(pid, tier, replay, rawdir, models=None):
    t0 = time.time()
    models = models or MODELS_C12
    raw = {"property": pid, "tier": tier, "engine": "loom", "level": "model_checking", "violations": [],
           "samples": [], "caps_hit": [], "extra": {}, "bounds": {}, "assumptions": [
               "loom explores every interleaving of the modelled atomic operations under its C11 memory model (up to the stated preemption bound); loom substitutes its own AtomicWaker/Mutex/RwLock models for futures-util's and parking_lot's through the crate's loom shim",
               "tokio channels inside the models are not instrumented by loom (they are used by one thread at a time)"],
           "rule": "each model is a loom::model closure over the REAL MuxStream / EstablishedStreamData / Multiplexor code; an evaluation is one complete interleaving generated by loom's DPOR; all are distinct by construction; outcomes = distinct observable results"}
    exe, err = build()
    if not exe:
        raw["machinery_error"] = "loom build failed: " + err[-1500:]
        return raw
    if replay:
        rj = json.load(open(replay)).get("replay", {})
        models = [rj.get("model", models[0])]
        bounds = [rj.get("preemption_bound", 3)]
        bounds = [None if b == "unbounded" else b for b in bounds]
    elif tier == "thorough":
        bounds = [None]
    else:
        bounds = [3, None]
    per_model_timeout = 1800 if tier == "thorough" else 25
    total_iters = 0
    total_outcomes = 0
    table = []
    completed_bounds = {}
    for model in models:
        mb = bounds if (replay or model not in DEEP_BOUNDS) else DEEP_BOUNDS[model][tier if tier in ("quick", "thorough") else "quick"]
        for b in mb:
            r = run_model(exe, model, b, per_model_timeout)
            if r.get("missing"):
                continue
            table.append(r)
            if r.get("timed_out"):
                raw["caps_hit"].append(f"{model} at preemption bound {r['preemption_bound']}: wall cap {per_model_timeout}s")
                break
            if r.get("ok"):
                total_iters += r["iterations"]
                completed_bounds[model] = r["preemption_bound"]
                if len(raw["samples"]) < 5:
                    raw["samples"].append({"model": model, "preemption_bound": r["preemption_bound"], "interleavings": r["iterations"], "observed_outcomes": r["outcome_set"]})
            else:
                raw["violations"].append({
                    "key": f"loom.{model}",
                    "desc": f"loom model {model} (preemption bound {r['preemption_bound']}) fails on some interleaving: {r.get('message', '')}",
                    "replay": {"model": model, "preemption_bound": r["preemption_bound"]},
                    "count": 1})
                break
        last = [t for t in table if t["model"] == model and t.get("ok")]
        if last:
            total_outcomes += last[-1]["outcomes"]
    raw["evaluations"] = total_iters
    raw["distinct_nontrivial"] = total_iters
    raw["states"] = total_iters
    raw["transitions"] = total_iters
    raw["exhaustive"] = not raw["caps_hit"] and all(v == "unbounded" for v in completed_bounds.values()) and bool(completed_bounds)
    raw["bounds"] = {"models": len(models), "preemption_bounds_tried": [("unbounded" if b is None else b) for b in bounds], "per_model_bounds": {m: [("unbounded" if b is None else b) for b in v[tier if tier in ("quick", "thorough") else "quick"]] for m, v in DEEP_BOUNDS.items() if m in models}, "completed_bound_per_model": completed_bounds}
    raw["extra"] = {"per_model": table, "distinct_outcomes": total_outcomes,
                    "note": "states/transitions report complete interleavings explored by loom (loom does not expose state counts)"}
    if not raw["violations"] and not completed_bounds:
        raw["machinery_error"] = "no loom model completed"
    raw["wall_s"] = time.time() - t0
    return raw
