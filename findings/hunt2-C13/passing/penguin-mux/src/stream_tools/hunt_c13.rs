//! hunt C13: randomized scripted-local exploration of `CopyBidirectional` (scratch)
use crate::frame::{Frame, Payload, PushPayload};
use crate::loom::{Arc, AtomicBool, AtomicU32, AtomicWaker, Ordering};
use crate::stream::MuxStream;
use crate::ws::Message;
use bytes::Bytes;
use core::pin::Pin;
use core::task::{Context, Poll, Waker};
use std::prelude::rust_2024::*;
use std::{eprintln, format, vec};
use std::cell::RefCell;
use std::collections::VecDeque;
use std::future::Future;
use std::io;
use std::rc::Rc;
use tokio::io::{AsyncBufRead, AsyncRead, AsyncWrite, ReadBuf};
use tokio::sync::mpsc;

#[derive(Clone, Copy, Debug, PartialEq)]
enum Pend {
    Wake,
    Never,
}
#[derive(Clone, Debug)]
enum Rd {
    Data(Vec<u8>),
    Pend(Pend),
    Eof,
    Err,
}
#[derive(Clone, Debug)]
enum Wr {
    Take(usize),
    Pend(Pend),
    Err,
    Zero,
}
#[derive(Clone, Debug)]
enum Op {
    Ok,
    Pend(Pend),
    Err,
}
#[derive(Clone, Debug)]
enum Peer {
    Push(Vec<u8>),
    Ack(u32),
    Finish,
    Reset,
}

#[derive(Default, Debug)]
struct Ctl {
    rd: VecDeque<Rd>,
    wr: VecDeque<Wr>,
    fl: VecDeque<Op>,
    sd: VecDeque<Op>,
    rd_armed: Option<Waker>,
    wr_armed: Option<Waker>,
    fl_armed: Option<Waker>,
    sd_armed: Option<Waker>,
    rd_stuck: bool,
    wr_stuck: bool,
    fl_stuck: bool,
    sd_stuck: bool,
    produced: Vec<u8>,
    eof_seen: bool,
    written: Vec<u8>,
    dirty: bool,
    shutdown_done: bool,
    errs: Vec<&'static str>,
    zero_returned: bool,
    write_after_shutdown: bool,
}

struct Local {
    ctl: Rc<RefCell<Ctl>>,
    cur: Vec<u8>,
    pos: usize,
}

impl AsyncRead for Local {
    fn poll_read(
        self: Pin<&mut Self>,
        _cx: &mut Context<'_>,
        _buf: &mut ReadBuf<'_>,
    ) -> Poll<io::Result<()>> {
        unimplemented!()
    }
}

impl AsyncBufRead for Local {
    fn poll_fill_buf(self: Pin<&mut Self>, cx: &mut Context<'_>) -> Poll<io::Result<&[u8]>> {
        let this = self.get_mut();
        if this.pos < this.cur.len() {
            return Poll::Ready(Ok(&this.cur[this.pos..]));
        }
        let mut c = this.ctl.borrow_mut();
        match c.rd.front().cloned() {
            None => {
                c.rd_stuck = true;
                Poll::Pending
            }
            Some(Rd::Data(v)) => {
                c.rd.pop_front();
                drop(c);
                this.cur = v;
                this.pos = 0;
                Poll::Ready(Ok(&this.cur[..]))
            }
            Some(Rd::Pend(Pend::Wake)) => {
                c.rd_armed = Some(cx.waker().clone());
                Poll::Pending
            }
            Some(Rd::Pend(Pend::Never)) => {
                c.rd_stuck = true;
                Poll::Pending
            }
            Some(Rd::Eof) => {
                c.eof_seen = true;
                Poll::Ready(Ok(&[]))
            }
            Some(Rd::Err) => {
                c.rd.pop_front();
                c.errs.push("read");
                Poll::Ready(Err(io::Error::other("scripted read error")))
            }
        }
    }
    fn consume(self: Pin<&mut Self>, amt: usize) {
        let this = self.get_mut();
        assert!(this.pos + amt <= this.cur.len());
        this.ctl
            .borrow_mut()
            .produced
            .extend_from_slice(&this.cur[this.pos..this.pos + amt]);
        this.pos += amt;
    }
}

fn op(
    q: &mut VecDeque<Op>,
    armed: &mut Option<Waker>,
    stuck: &mut bool,
    cx: &mut Context<'_>,
) -> Poll<Result<(), ()>> {
    match q.front().cloned() {
        None => Poll::Ready(Ok(())),
        Some(Op::Ok) => {
            q.pop_front();
            Poll::Ready(Ok(()))
        }
        Some(Op::Pend(Pend::Wake)) => {
            *armed = Some(cx.waker().clone());
            Poll::Pending
        }
        Some(Op::Pend(Pend::Never)) => {
            *stuck = true;
            Poll::Pending
        }
        Some(Op::Err) => {
            q.pop_front();
            Poll::Ready(Err(()))
        }
    }
}

impl AsyncWrite for Local {
    fn poll_write(
        self: Pin<&mut Self>,
        cx: &mut Context<'_>,
        buf: &[u8],
    ) -> Poll<io::Result<usize>> {
        let mut c = self.ctl.borrow_mut();
        if c.shutdown_done {
            c.write_after_shutdown = true;
        }
        assert!(!buf.is_empty(), "bridge offered an empty write");
        match c.wr.front().cloned() {
            None => {
                c.written.extend_from_slice(buf);
                c.dirty = true;
                Poll::Ready(Ok(buf.len()))
            }
            Some(Wr::Take(n)) => {
                c.wr.pop_front();
                let k = n.min(buf.len());
                c.written.extend_from_slice(&buf[..k]);
                c.dirty = true;
                Poll::Ready(Ok(k))
            }
            Some(Wr::Pend(Pend::Wake)) => {
                c.wr_armed = Some(cx.waker().clone());
                Poll::Pending
            }
            Some(Wr::Pend(Pend::Never)) => {
                c.wr_stuck = true;
                Poll::Pending
            }
            Some(Wr::Err) => {
                c.wr.pop_front();
                c.errs.push("write");
                Poll::Ready(Err(io::Error::other("scripted write error")))
            }
            Some(Wr::Zero) => {
                c.wr.pop_front();
                c.zero_returned = true;
                Poll::Ready(Ok(0))
            }
        }
    }
    fn poll_flush(self: Pin<&mut Self>, cx: &mut Context<'_>) -> Poll<io::Result<()>> {
        let c = &mut *self.ctl.borrow_mut();
        match op(&mut c.fl, &mut c.fl_armed, &mut c.fl_stuck, cx) {
            Poll::Pending => Poll::Pending,
            Poll::Ready(Ok(())) => {
                c.dirty = false;
                Poll::Ready(Ok(()))
            }
            Poll::Ready(Err(())) => {
                c.errs.push("flush");
                Poll::Ready(Err(io::Error::other("scripted flush error")))
            }
        }
    }
    fn poll_shutdown(self: Pin<&mut Self>, cx: &mut Context<'_>) -> Poll<io::Result<()>> {
        let c = &mut *self.ctl.borrow_mut();
        match op(&mut c.sd, &mut c.sd_armed, &mut c.sd_stuck, cx) {
            Poll::Pending => Poll::Pending,
            Poll::Ready(Ok(())) => {
                c.dirty = false;
                c.shutdown_done = true;
                Poll::Ready(Ok(()))
            }
            Poll::Ready(Err(())) => {
                c.errs.push("shutdown");
                Poll::Ready(Err(io::Error::other("scripted shutdown error")))
            }
        }
    }
}

struct Flag(std::sync::atomic::AtomicBool);
impl std::task::Wake for Flag {
    fn wake(self: std::sync::Arc<Self>) {
        self.0.store(true, std::sync::atomic::Ordering::SeqCst);
    }
}

struct Rng(u64);
impl Rng {
    fn next(&mut self) -> u64 {
        // xorshift64*
        let mut x = self.0;
        x ^= x >> 12;
        x ^= x << 25;
        x ^= x >> 27;
        self.0 = x;
        x.wrapping_mul(0x2545_F491_4F6C_DD1D)
    }
    fn below(&mut self, n: u64) -> u64 {
        (self.next() >> 33) % n
    }
    fn chance(&mut self, pct: u64) -> bool {
        self.below(100) < pct
    }
}

fn gen_pend(r: &mut Rng, never_pct: u64) -> Pend {
    if r.chance(never_pct) {
        Pend::Never
    } else {
        Pend::Wake
    }
}

struct Case {
    rd: Vec<Rd>,
    wr: Vec<Wr>,
    fl: Vec<Op>,
    sd: Vec<Op>,
    peer: Vec<Peer>,
    rwnd: u32,
    thr: u32,
    credit0: u32,
}

fn gen_case(r: &mut Rng, faults: bool) -> Case {
    let never = if faults { 8 } else { 0 };
    let errp = if faults { 6 } else { 0 };
    let mut counter = 0u8;
    let mut data = |r: &mut Rng, counter: &mut u8| {
        let n = 1 + r.below(5) as usize;
        (0..n)
            .map(|_| {
                *counter = counter.wrapping_add(1);
                *counter
            })
            .collect::<Vec<u8>>()
    };
    // local read script
    let mut rd = Vec::new();
    let n = r.below(7);
    for _ in 0..n {
        let k = r.below(100);
        if k < 55 {
            rd.push(Rd::Data(data(r, &mut counter)));
        } else if k < 95 - errp {
            rd.push(Rd::Pend(gen_pend(r, never)));
        } else if k < 100 - errp {
            rd.push(Rd::Pend(Pend::Wake));
        } else {
            rd.push(Rd::Err);
        }
    }
    if r.chance(80) {
        rd.push(Rd::Eof);
    }
    // local write script
    let mut wr = Vec::new();
    for _ in 0..r.below(10) {
        let k = r.below(100);
        if k < 60 {
            wr.push(Wr::Take(1 + r.below(4) as usize));
        } else if k < 100 - errp {
            wr.push(Wr::Pend(gen_pend(r, never)));
        } else if k < 100 - errp / 2 {
            wr.push(Wr::Err);
        } else {
            wr.push(Wr::Zero);
        }
    }
    let gen_ops = |r: &mut Rng, n: u64| {
        let mut v = Vec::new();
        for _ in 0..r.below(n) {
            let k = r.below(100);
            if k < 50 {
                v.push(Op::Ok);
            } else if k < 100 - errp {
                v.push(Op::Pend(gen_pend(r, never)));
            } else {
                v.push(Op::Err);
            }
        }
        v
    };
    let fl = gen_ops(r, 6);
    let sd = gen_ops(r, 3);
    // peer script
    let mut peer = Vec::new();
    let mut counter2 = 100u8;
    let n = r.below(9);
    let mut finished = false;
    for _ in 0..n {
        let k = r.below(100);
        if k < 50 {
            if !finished {
                if r.chance(10) {
                    peer.push(Peer::Push(Vec::new()));
                } else {
                    peer.push(Peer::Push(data(r, &mut counter2)));
                }
            }
        } else if k < 80 {
            peer.push(Peer::Ack(1 + r.below(3) as u32));
        } else if k < 92 {
            if !finished {
                peer.push(Peer::Finish);
                finished = true;
            }
        } else if faults {
            peer.push(Peer::Reset);
            break;
        }
    }
    if !finished && r.chance(70) && !matches!(peer.last(), Some(Peer::Reset)) {
        peer.push(Peer::Finish);
    }
    let rwnd = 1 + r.below(4) as u32;
    let thr = 1 + r.below(u64::from(rwnd)) as u32;
    let credit0 = r.below(4) as u32;
    Case {
        rd,
        wr,
        fl,
        sd,
        peer,
        rwnd,
        thr,
        credit0,
    }
}

fn run_case(seed: u64, faults: bool) -> Result<(), String> {
    let mut r = Rng(seed.wrapping_mul(0x9E37_79B9_7F4A_7C15) | 1);
    let case = gen_case(&mut r, faults);
    let desc = format!(
        "seed={seed} rwnd={} thr={} credit0={}\n rd={:?}\n wr={:?}\n fl={:?}\n sd={:?}\n peer={:?}",
        case.rwnd, case.thr, case.credit0, case.rd, case.wr, case.fl, case.sd, case.peer
    );
    let mut trace: Vec<String> = Vec::new();
    macro_rules! fail {
        ($($arg:tt)*) => {
            return Err(format!("{}\n{}\n trace={:#?}", format!($($arg)*), desc, trace))
        };
    }
    let ctl = Rc::new(RefCell::new(Ctl {
        rd: case.rd.iter().cloned().collect(),
        wr: case.wr.iter().cloned().collect(),
        fl: case.fl.iter().cloned().collect(),
        sd: case.sd.iter().cloned().collect(),
        ..Ctl::default()
    }));
    let local = Local {
        ctl: ctl.clone(),
        cur: Vec::new(),
        pos: 0,
    };
    let (rx_frame_tx, rx_frame_rx) = mpsc::channel::<Bytes>(case.rwnd as usize);
    let mut rx_frame_tx = Some(rx_frame_tx);
    let (tx_msg_tx, mut tx_msg_rx) = mpsc::unbounded_channel();
    let (dropped_flows_tx, _dropped_flows_rx) = mpsc::unbounded_channel();
    let finish_sent = Arc::new(AtomicBool::new(false));
    let psh_send_remaining = Arc::new(AtomicU32::new(case.credit0));
    let writer_waker = Arc::new(AtomicWaker::new());
    let stream = MuxStream {
        rx_frame_rx,
        flow_id: 7,
        dest_host: Bytes::new(),
        dest_port: 0,
        finish_sent: finish_sent.clone(),
        psh_send_remaining: psh_send_remaining.clone(),
        psh_recvd_since: 0,
        writer_waker: writer_waker.clone(),
        tx_msg_tx,
        buf: Bytes::new(),
        dropped_flows_tx,
        rwnd_threshold: case.thr,
    };
    let mut fut = Box::pin(stream.into_copy_bidirectional_with_buf(local));

    let flag = std::sync::Arc::new(Flag(std::sync::atomic::AtomicBool::new(true)));
    let waker = Waker::from(flag.clone());

    let mut peer: VecDeque<Peer> = case.peer.iter().cloned().collect();
    let mut peer_credit = case.rwnd; // how many Push frames the peer may still send
    let mut peer_sent: Vec<u8> = Vec::new();
    let mut peer_terminated = false;
    let mut peer_reset = false;
    let mut granted: u32 = case.credit0;
    let mut pushes: Vec<Vec<u8>> = Vec::new();
    let mut finish_frames = 0u32;
    let mut result: Option<io::Result<(usize, usize)>> = None;

    let mut steps = 0;
    loop {
        steps += 1;
        if steps > 10_000 {
            fail!("driver did not terminate");
        }
        let woken = flag.0.swap(false, std::sync::atomic::Ordering::SeqCst);
        let spurious = !woken && r.chance(5);
        if woken || spurious {
            let mut cx = Context::from_waker(&waker);
            let p = fut.as_mut().poll(&mut cx);
            trace.push(format!("poll(spurious={spurious}) -> {p:?}"));
            // drain the wire
            while let Ok(msg) = tx_msg_rx.try_recv() {
                let Message::Binary(b) = msg else {
                    fail!("non-binary message");
                };
                let f = Frame::try_from(b).unwrap();
                if f.id != 7 {
                    fail!("wrong flow id");
                }
                match f.payload {
                    Payload::Push(PushPayload::Single(d)) => {
                        if d.is_empty() {
                            fail!("empty Push frame sent");
                        }
                        if finish_frames > 0 {
                            fail!("Push after Finish");
                        }
                        pushes.push(d.to_vec());
                    }
                    Payload::Acknowledge(n) => {
                        peer_credit += n;
                        if peer_credit > case.rwnd {
                            fail!("acknowledged more than received");
                        }
                    }
                    Payload::Finish => finish_frames += 1,
                    other => fail!("unexpected frame {other:?}"),
                }
            }
            // safety
            {
                let c = ctl.borrow();
                if !peer_sent.starts_with(&c.written) {
                    fail!("mux->local bytes differ: {:?} vs {:?}", c.written, peer_sent);
                }
                let cat: Vec<u8> = pushes.concat();
                if cat != c.produced {
                    fail!("local->mux bytes differ: wire {:?} vs consumed {:?}", cat, c.produced);
                }
                let remaining = psh_send_remaining.load(Ordering::SeqCst);
                if granted - remaining != pushes.len() as u32 {
                    fail!(
                        "credit: granted {granted} remaining {remaining} pushes {}",
                        pushes.len()
                    );
                }
                if c.write_after_shutdown {
                    fail!("write after shutdown");
                }
                if finish_frames > 1 {
                    fail!("two Finish frames");
                }
            }
            if let Poll::Ready(res) = p {
                result = Some(res);
                break;
            }
            continue;
        }
        // choose an external event
        #[derive(Debug, Clone, Copy)]
        enum Ev {
            Peer,
            Rd,
            Wr,
            Fl,
            Sd,
        }
        let mut evs = Vec::new();
        {
            let c = ctl.borrow();
            match peer.front() {
                Some(Peer::Push(_)) => {
                    if peer_credit > 0 {
                        evs.push(Ev::Peer);
                    }
                }
                Some(_) => evs.push(Ev::Peer),
                None => {}
            }
            if matches!(c.rd.front(), Some(Rd::Pend(Pend::Wake))) {
                evs.push(Ev::Rd);
            }
            if matches!(c.wr.front(), Some(Wr::Pend(Pend::Wake))) {
                evs.push(Ev::Wr);
            }
            if matches!(c.fl.front(), Some(Op::Pend(Pend::Wake))) {
                evs.push(Ev::Fl);
            }
            if matches!(c.sd.front(), Some(Op::Pend(Pend::Wake))) {
                evs.push(Ev::Sd);
            }
        }
        if evs.is_empty() {
            break; // quiescent
        }
        let ev = evs[r.below(evs.len() as u64) as usize];
        trace.push(format!("event {ev:?} {:?}", if matches!(ev, Ev::Peer) { peer.front().cloned() } else { None }));
        match ev {
            Ev::Peer => match peer.pop_front().unwrap() {
                Peer::Push(d) => {
                    peer_credit -= 1;
                    peer_sent.extend_from_slice(&d);
                    if rx_frame_tx
                        .as_ref()
                        .unwrap()
                        .try_send(Bytes::from(d))
                        .is_err()
                    {
                        fail!("receive queue overrun although the peer respected the window");
                    }
                }
                Peer::Ack(n) => {
                    if !peer_reset {
                        granted += n;
                        psh_send_remaining.fetch_add(n, Ordering::Relaxed);
                        writer_waker.wake();
                    }
                }
                Peer::Finish => {
                    rx_frame_tx.take();
                    peer_terminated = true;
                }
                Peer::Reset => {
                    finish_sent.swap(true, Ordering::AcqRel);
                    writer_waker.wake();
                    rx_frame_tx.take();
                    peer_terminated = true;
                    peer_reset = true;
                }
            },
            Ev::Rd => {
                let mut c = ctl.borrow_mut();
                c.rd.pop_front();
                if let Some(w) = c.rd_armed.take() {
                    w.wake();
                }
            }
            Ev::Wr => {
                let mut c = ctl.borrow_mut();
                c.wr.pop_front();
                if let Some(w) = c.wr_armed.take() {
                    w.wake();
                }
            }
            Ev::Fl => {
                let mut c = ctl.borrow_mut();
                c.fl.pop_front();
                if let Some(w) = c.fl_armed.take() {
                    w.wake();
                }
            }
            Ev::Sd => {
                let mut c = ctl.borrow_mut();
                c.sd.pop_front();
                if let Some(w) = c.sd_armed.take() {
                    w.wake();
                }
            }
        }
    }

    match result {
        Some(Ok((rd_amt, wr_amt))) => {
            let c = ctl.borrow();
            if rd_amt != c.written.len() || c.written != peer_sent {
                fail!("Ok but mux->local incomplete: {rd_amt} {:?} {:?}", c.written, peer_sent);
            }
            if wr_amt != c.produced.len() || !c.eof_seen {
                fail!("Ok but local->mux incomplete");
            }
            if !c.shutdown_done {
                fail!("Ok without local shutdown");
            }
            if !peer_terminated {
                fail!("Ok without peer end");
            }
            if finish_frames != 1 && !peer_reset {
                fail!("Ok without Finish");
            }
            if !c.errs.is_empty() {
                fail!("Ok although a local operation failed: {:?}", c.errs);
            }
        }
        Some(Err(e)) => {
            let c = ctl.borrow();
            let justified = !c.errs.is_empty()
                || (c.zero_returned && e.kind() == io::ErrorKind::WriteZero)
                || (peer_reset && e.kind() == io::ErrorKind::BrokenPipe);
            if !justified {
                fail!("unjustified error {e:?}");
            }
        }
        None => {
            // quiescent and pending: no lost wake-up?
            let snap = |c: &Ctl, pushes: usize, fin: u32| {
                (
                    c.written.len(),
                    c.produced.len(),
                    pushes,
                    fin,
                    c.shutdown_done,
                    c.eof_seen,
                    c.errs.len(),
                    c.rd.len(),
                    c.wr.len(),
                    c.sd.len(),
                )
            };
            let before = snap(&ctl.borrow(), pushes.len(), finish_frames);
            let dirty_before = {
                let c = ctl.borrow();
                c.dirty && !c.fl_stuck && !c.wr_stuck && !c.sd_stuck
            };
            {
                let c = ctl.borrow();
                if !c.errs.is_empty() || c.zero_returned {
                    fail!("a local operation failed but the bridge is pending: {:?}", c.errs);
                }
            }
            if dirty_before {
                fail!("unflushed bytes at quiescence");
            }
            ctl.borrow_mut().fl.clear();
            let flag2 = std::sync::Arc::new(Flag(std::sync::atomic::AtomicBool::new(false)));
            let waker2 = Waker::from(flag2.clone());
            let mut cx = Context::from_waker(&waker2);
            let p = fut.as_mut().poll(&mut cx);
            let mut extra = 0;
            let mut fin = finish_frames;
            while let Ok(Message::Binary(b)) = tx_msg_rx.try_recv() {
                match Frame::try_from(b).unwrap().payload {
                    Payload::Push(_) => extra += 1,
                    Payload::Finish => fin += 1,
                    _ => {}
                }
            }
            let after = snap(&ctl.borrow(), pushes.len() + extra, fin);
            if p.is_ready() || before != after {
                fail!("lost wake-up: re-poll at quiescence made progress: {p:?} {before:?} -> {after:?}");
            }
            // justification
            let c = ctl.borrow();
            let r_ended = c.shutdown_done;
            let w_ended = c.eof_seen;
            let r_block = c.wr_stuck || c.sd_stuck || !peer_terminated;
            let remaining = psh_send_remaining.load(Ordering::SeqCst);
            let w_block = c.rd_stuck || (remaining == 0 && !peer_reset);
            if !r_ended && !r_block {
                fail!("mux->local direction stuck without a cause");
            }
            if !w_ended && !w_block {
                fail!("local->mux direction stuck without a cause");
            }
            if r_ended && w_ended {
                fail!("both directions ended but the bridge is pending");
            }
            // peer starved?
            if matches!(peer.front(), Some(Peer::Push(_))) && !c.wr_stuck && !c.sd_stuck {
                fail!("peer starved of credit while the local side is willing");
            }
        }
    }
    Ok(())
}

#[test]
fn hunt_c13_fuzz_nofault() {
    let mut bad = 0;
    for seed in 1..=300_000u64 {
        if let Err(e) = run_case(seed, false) {
            eprintln!("VIOLATION: {e}\n");
            bad += 1;
            if bad >= 3 {
                break;
            }
        }
    }
    assert_eq!(bad, 0);
}

#[test]
fn hunt_c13_fuzz_faults() {
    let mut bad = 0;
    for seed in 1..=300_000u64 {
        if let Err(e) = run_case(seed, true) {
            eprintln!("VIOLATION: {e}\n");
            bad += 1;
            if bad >= 3 {
                break;
            }
        }
    }
    assert_eq!(bad, 0);
}

#[cfg(feature = "tungstenite")]
mod integ {
    use crate::config::Options;
    use crate::{Multiplexor, MuxStream};
    use std::prelude::rust_2024::*;
    use std::time::Duration;
    use std::{eprintln, format, vec};
    use tokio::io::{AsyncReadExt, AsyncWriteExt, DuplexStream};
    use tokio_tungstenite::{WebSocketStream, tungstenite::protocol::Role};

    async fn pair(oa: Options, ob: Options, link: usize) -> (Multiplexor, Multiplexor, MuxStream, MuxStream) {
        let (c, s) = tokio::io::duplex(link);
        let c = WebSocketStream::from_raw_socket(c, Role::Client, None).await;
        let s = WebSocketStream::from_raw_socket(s, Role::Server, None).await;
        let a = Multiplexor::new_with_opt(c, oa, None);
        let b = Multiplexor::new_with_opt(s, ob, None);
        let (sa, sb) = tokio::join!(a.new_stream_channel(b"x", 1), b.accept_stream_channel());
        (a, b, sa.unwrap(), sb.unwrap())
    }

    fn pattern(n: usize, salt: u8) -> Vec<u8> {
        (0..n).map(|i| ((i * 31 + i / 251) as u8) ^ salt).collect()
    }

    async fn write_chunks(w: &mut (impl AsyncWriteExt + Unpin), data: &[u8], mut chunk: usize) {
        let mut off = 0;
        while off < data.len() {
            let k = chunk.min(data.len() - off);
            w.write_all(&data[off..off + k]).await.unwrap();
            off += k;
            chunk = chunk * 7 % 9001 + 1;
        }
    }

    async fn scenario(name: &str, oa: Options, ob: Options, na: usize, nb: usize, mode: u8, locbuf: usize) {
        let (_ma, _mb, sa, sb) = pair(oa, ob, 2048).await;
        let (la, mut app_a) = tokio::io::duplex(locbuf);
        let (lb, mut app_b) = tokio::io::duplex(locbuf);
        let ba = tokio::spawn(sa.into_copy_bidirectional(la));
        let bb = tokio::spawn(sb.into_copy_bidirectional(lb));
        let da = pattern(na, 0x5a);
        let db = pattern(nb, 0xa5);
        let (da2, db2) = (da.clone(), db.clone());
        let apps = async move {
            match mode {
                // sequential: A sends all, half-closes; B reads to EOF, then answers and closes
                0 => {
                    let ta = tokio::spawn(async move {
                        write_chunks(&mut app_a, &da2, 1000).await;
                        app_a.shutdown().await.unwrap();
                        let mut got = Vec::new();
                        app_a.read_to_end(&mut got).await.unwrap();
                        got
                    });
                    let tb = tokio::spawn(async move {
                        let mut got = Vec::new();
                        app_b.read_to_end(&mut got).await.unwrap();
                        write_chunks(&mut app_b, &db2, 333).await;
                        app_b.shutdown().await.unwrap();
                        got
                    });
                    (ta.await.unwrap(), tb.await.unwrap())
                }
                // full duplex
                _ => {
                    async fn both(mut app: DuplexStream, data: Vec<u8>, chunk: usize) -> Vec<u8> {
                        let (mut r, mut w) = tokio::io::split(&mut app);
                        let wr = async {
                            write_chunks(&mut w, &data, chunk).await;
                            w.shutdown().await.unwrap();
                        };
                        let rd = async {
                            let mut got = Vec::new();
                            r.read_to_end(&mut got).await.unwrap();
                            got
                        };
                        let ((), got) = tokio::join!(wr, rd);
                        got
                    }
                    let ta = tokio::spawn(both(app_a, da2, 4097));
                    let tb = tokio::spawn(both(app_b, db2, 17));
                    (ta.await.unwrap(), tb.await.unwrap())
                }
            }
        };
        let all = async {
            let (got_a, got_b) = apps.await;
            let ra = ba.await.unwrap();
            let rb = bb.await.unwrap();
            (got_a, got_b, ra, rb)
        };
        let Ok((got_a, got_b, ra, rb)) = tokio::time::timeout(Duration::from_secs(20), all).await else {
            panic!("{name}: HANG");
        };
        assert!(got_a == db, "{name}: A got {} of {}", got_a.len(), db.len());
        assert!(got_b == da, "{name}: B got {} of {}", got_b.len(), da.len());
        assert_eq!(ra.unwrap(), (nb, na), "{name}");
        assert_eq!(rb.unwrap(), (na, nb), "{name}");
    }

    #[tokio::test(flavor = "multi_thread", worker_threads = 4)]
    async fn hunt_c13_starve() {
        use std::time::Instant;
        let oa = Options::new().rwnd(512).default_rwnd_threshold(256);
        let (_ma, _mb, sa, sb) = pair(oa, oa, 1 << 22).await;
        let (lb, app_b) = tokio::io::duplex(1 << 24);
        let bb = tokio::spawn(sb.into_copy_bidirectional(lb));
        let (mut ar, mut aw) = tokio::io::split(sa);
        let (mut br, mut bw) = tokio::io::split(app_b);
        let total: usize = 400 << 20;
        let t0 = Instant::now();
        let pump = tokio::spawn(async move {
            let chunk = vec![7u8; 512];
            let mut sent = 0;
            while sent < total {
                aw.write_all(&chunk).await.unwrap();
                sent += chunk.len();
            }
            aw.shutdown().await.unwrap();
            t0.elapsed()
        });
        let drain = tokio::spawn(async move {
            let mut buf = vec![0u8; 1 << 20];
            let mut got = 0usize;
            loop {
                let n = br.read(&mut buf).await.unwrap();
                if n == 0 { break; }
                got += n;
            }
            (got, t0.elapsed())
        });
        tokio::time::sleep(Duration::from_millis(300)).await;
        let tp = t0.elapsed();
        bw.write_all(b"ping").await.unwrap();
        let mut b4 = [0u8; 4];
        ar.read_exact(&mut b4).await.unwrap();
        let tping = t0.elapsed();
        eprintln!("ping written at {tp:?}, arrived at {tping:?}");
        let tpump = pump.await.unwrap();
        let (got, tdrain) = drain.await.unwrap();
        eprintln!("pump done {tpump:?}; drain {got} bytes done {tdrain:?}");
        bw.shutdown().await.unwrap();
        let _ = bb.await;
    }

    #[tokio::test(flavor = "multi_thread", worker_threads = 4)]
    async fn hunt_c13_chaos() {
        for it in 0..600u64 {
            let rw = [1u32, 2, 4, 16][(it % 4) as usize];
            let o = Options::new().rwnd(rw).default_rwnd_threshold(rw.div_ceil(2));
            let (ma, mb, sa, mut sb) = pair(o, o, 4096).await;
            let (la, app_a) = tokio::io::duplex(256);
            let ba = tokio::spawn(sa.into_copy_bidirectional(la));
            let (mut ar, mut aw) = tokio::io::split(app_a);
            // app A: write forever until error; read until EOF/error
            let wa = tokio::spawn(async move {
                let chunk = vec![1u8; 100];
                let mut n = 0usize;
                while aw.write_all(&chunk).await.is_ok() { n += 100; }
                n
            });
            let ra = tokio::spawn(async move {
                let mut buf = [0u8; 512];
                let mut n = 0usize;
                loop { match ar.read(&mut buf).await { Ok(0) | Err(_) => break, Ok(k) => n += k } }
                n
            });
            let kind = (it / 4) % 3;
            let delay = (it * 37) % 23;
            // peer: read a bit, write a bit, then abruptly go away
            let mut buf = [0u8; 64];
            for _ in 0..(it % 7) {
                let _ = tokio::time::timeout(Duration::from_millis(5), sb.read(&mut buf)).await;
            }
            let _ = tokio::time::timeout(Duration::from_millis(5), sb.write_all(b"hello")).await;
            tokio::time::sleep(Duration::from_millis(delay)).await;
            match kind {
                0 => drop(sb),                       // Reset
                1 => { drop(mb); drop(sb); }         // peer multiplexor goes away too
                _ => { drop(ma); }                   // our own multiplexor handle dropped
            }
            let all = async {
                let r = ba.await.unwrap();
                let w = wa.await.unwrap();
                let rd = ra.await.unwrap();
                (r, w, rd)
            };
            match tokio::time::timeout(Duration::from_secs(10), all).await {
                Ok((r, _w, _rd)) => { let _ = r; }
                Err(_) => panic!("chaos it={it} kind={kind} rw={rw}: bridge did not terminate"),
            }
        }
    }

    #[tokio::test(flavor = "multi_thread", worker_threads = 4)]
    async fn hunt_c13_integ() {
        let mut i = 0;
        for &(rwa, tha, rwb, thb) in &[
            (1u32, 1u32, 1u32, 1u32),
            (1, 1000, 7, 3),
            (4, 4, 4, 4),
            (2, 1, 512, 256),
            (512, 256, 3, 1000),
            (5, 5, 1, 1),
        ] {
            let oa = Options::new().rwnd(rwa).default_rwnd_threshold(tha);
            let ob = Options::new().rwnd(rwb).default_rwnd_threshold(thb);
            for &(na, nb) in &[(0usize, 0usize), (1, 0), (0, 1), (300_000, 5), (7, 300_000), (200_000, 200_000)] {
                for mode in 0..2u8 {
                    for &locbuf in &[1usize, 64, 65536] {
                        if locbuf == 1 && na + nb > 100_000 {
                            continue;
                        }
                        i += 1;
                        let name = format!("#{i} rw=({rwa},{tha},{rwb},{thb}) n=({na},{nb}) mode={mode} locbuf={locbuf}");
                        scenario(&name, oa, ob, na, nb, mode, locbuf).await;
                    }
                }
            }
        }
        eprintln!("{i} scenarios ok");
    }
}
