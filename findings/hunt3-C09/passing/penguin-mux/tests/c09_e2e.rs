//! What a `Multiplexor` puts on the wire / takes from the wire, observed on a raw WebSocket peer.
use bytes::Bytes;
use futures_util::{SinkExt, StreamExt};
use penguin_mux::frame::BindType;
use penguin_mux::{Datagram, Multiplexor, config::Options};
use std::time::Duration;
use tokio::io::{AsyncReadExt, AsyncWriteExt};
use tokio_tungstenite::{WebSocketStream, tungstenite::Message, tungstenite::protocol::Role};

type Raw = WebSocketStream<tokio::io::DuplexStream>;

async fn pair(opts: Options) -> (Multiplexor, Raw, tokio::task::JoinSet<penguin_mux::Result<()>>) {
    let (a, b) = tokio::io::duplex(1 << 20);
    let a = WebSocketStream::from_raw_socket(a, Role::Client, None).await;
    let b = WebSocketStream::from_raw_socket(b, Role::Server, None).await;
    let mut js = tokio::task::JoinSet::new();
    let mux = Multiplexor::new_with_opt(a, opts, Some(&mut js));
    (mux, b, js)
}

async fn next_bin(raw: &mut Raw) -> Vec<u8> {
    loop {
        let m = tokio::time::timeout(Duration::from_secs(5), raw.next())
            .await
            .expect("timeout waiting for a message")
            .expect("eof")
            .expect("ws error");
        match m {
            Message::Binary(b) => return b.to_vec(),
            Message::Ping(_) | Message::Pong(_) => {}
            other => panic!("unexpected {other:?}"),
        }
    }
}

fn be32(v: u32) -> [u8; 4] {
    v.to_be_bytes()
}

fn dgram_bytes(ver: u8, id: u32, host: &[u8], port: u16, data: &[u8]) -> Vec<u8> {
    let mut v = vec![ver << 4 | 6];
    v.extend(be32(id));
    v.push(host.len() as u8);
    v.extend(port.to_be_bytes());
    v.extend(host);
    v.extend(data);
    v
}

#[tokio::test]
async fn datagrams_both_ways() {
    let (mux, mut raw, _js) = pair(Options::new().datagram_buffer_size(4)).await;
    let hosts: Vec<Vec<u8>> = vec![vec![], vec![0], vec![0xff; 255], b"example.com".to_vec(), vec![0x76; 7]];
    let datas: Vec<Vec<u8>> = vec![vec![], vec![1], vec![1, 2], vec![1, 2, 3], vec![1, 2, 3, 4], vec![0xab; 70_000]];
    for (i, host) in hosts.iter().enumerate() {
        for (j, data) in datas.iter().enumerate() {
            for &id in &[0u32, 1, 0xffff_ffff, 0x7600_0076] {
                let port = [0u16, 0xffff, 0x0102][(i + j) % 3];
                mux.send_datagram(Datagram {
                    flow_id: id,
                    target_host: Bytes::from(host.clone()),
                    target_port: port,
                    data: Bytes::from(data.clone()),
                })
                .await
                .unwrap();
                assert_eq!(next_bin(&mut raw).await, dgram_bytes(7, id, host, port, data));
                for ver in [7u8, 0] {
                    raw.send(Message::Binary(dgram_bytes(ver, id, host, port, data).into())).await.unwrap();
                    let got = tokio::time::timeout(Duration::from_secs(5), mux.get_datagram())
                        .await
                        .expect("datagram not delivered")
                        .unwrap();
                    assert_eq!(got.flow_id, id);
                    assert_eq!(&got.target_host[..], &host[..]);
                    assert_eq!(got.target_port, port);
                    assert_eq!(&got.data[..], &data[..]);
                }
            }
        }
    }
    assert!(matches!(
        mux.send_datagram(Datagram { flow_id: 1, target_host: Bytes::from(vec![0; 256]), target_port: 1, data: Bytes::new() }).await,
        Err(penguin_mux::Error::DatagramHostTooLong)
    ));
}

#[tokio::test]
async fn connect_push_finish_outgoing() {
    for host in [vec![], vec![b'a'; 300], b"h".to_vec()] {
        for port in [0u16, 0xffff] {
            let rwnd = 0x0102_0304;
            let (mux, mut raw, _js) = pair(Options::new().rwnd(rwnd)).await;
            let h2 = host.clone();
            let req = tokio::spawn(async move {
                let s = mux.new_stream_channel(&h2, port).await.unwrap();
                (mux, s)
            });
            let c = next_bin(&mut raw).await;
            assert_eq!(c[0], 0x70);
            let id = u32::from_be_bytes([c[1], c[2], c[3], c[4]]);
            assert_ne!(id, 0);
            let mut want = vec![0x70];
            want.extend(be32(id));
            want.extend(be32(rwnd));
            want.extend(port.to_be_bytes());
            want.extend(&host);
            assert_eq!(c, want);
            // Acknowledge with the lenient version nibble and trailing garbage-free layout
            let mut ack = vec![0x01];
            ack.extend(be32(id));
            ack.extend(be32(3));
            raw.send(Message::Binary(ack.into())).await.unwrap();
            let (_mux, mut s) = tokio::time::timeout(Duration::from_secs(5), req).await.unwrap().unwrap();

            s.write_all(b"x").await.unwrap();
            let mut want = vec![0x74];
            want.extend(be32(id));
            want.push(b'x');
            assert_eq!(next_bin(&mut raw).await, want);
            let n = s
                .write_vectored(&[std::io::IoSlice::new(b"ab"), std::io::IoSlice::new(b""), std::io::IoSlice::new(b"cde")])
                .await
                .unwrap();
            assert_eq!(n, 5);
            let mut want = vec![0x74];
            want.extend(be32(id));
            want.extend(b"abcde");
            assert_eq!(next_bin(&mut raw).await, want);
            // peer pushes 1..3 byte payloads and an empty one
            for data in [&b"1"[..], b"", b"22", b"333"] {
                let mut p = vec![0x74];
                p.extend(be32(id));
                p.extend(data);
                raw.send(Message::Binary(p.into())).await.unwrap();
            }
            let mut buf = [0u8; 6];
            tokio::time::timeout(Duration::from_secs(5), s.read_exact(&mut buf)).await.unwrap().unwrap();
            assert_eq!(&buf, b"122333");
            s.shutdown().await.unwrap();
            let mut want = vec![0x73];
            want.extend(be32(id));
            // flow control: 3 frames read with a peer window of 3 => one Acknowledge(3) first
            let mut ack = vec![0x71];
            ack.extend(be32(id));
            ack.extend(be32(3));
            assert_eq!(next_bin(&mut raw).await, ack);
            assert_eq!(next_bin(&mut raw).await, want);
        }
    }
}

#[tokio::test]
async fn connect_incoming_and_bind() {
    let rwnd = 7;
    let (mux, mut raw, _js) = pair(Options::new().rwnd(rwnd).bind_buffer_size(4)).await;
    for (k, host) in [vec![], vec![0xff; 1000], b"::1".to_vec()].into_iter().enumerate() {
        for ver in [7u8, 0] {
            let id = 0x1000_0000 + (k as u32) * 2 + u32::from(ver == 0);
            let port: u16 = 0xfffe;
            let mut c = vec![ver << 4];
            c.extend(be32(id));
            c.extend(be32(0xffff_ffff));
            c.extend(port.to_be_bytes());
            c.extend(&host);
            raw.send(Message::Binary(c.into())).await.unwrap();
            let s = tokio::time::timeout(Duration::from_secs(5), mux.accept_stream_channel()).await.unwrap().unwrap();

            assert_eq!(&s.dest_host[..], &host[..]);
            assert_eq!(s.dest_port, port);
            let mut want = vec![0x71];
            want.extend(be32(id));
            want.extend(be32(rwnd));
            assert_eq!(next_bin(&mut raw).await, want);
            drop(s);
            let mut want = vec![0x72];
            want.extend(be32(id));
            assert_eq!(next_bin(&mut raw).await, want);
        }
    }
    // incoming Bind
    for (ty, bt) in [(1u8, BindType::Stream), (3, BindType::Datagram)] {
        for host in [vec![], b"0.0.0.0".to_vec(), vec![0x80; 300]] {
            for ver in [7u8, 0] {
                let id = 0x55aa_0000 + u32::from(ty);
                let mut b = vec![ver << 4 | 5];
                b.extend(be32(id));
                b.push(ty);
                b.extend(0x8001u16.to_be_bytes());
                b.extend(&host);
                raw.send(Message::Binary(b.into())).await.unwrap();
                let r = tokio::time::timeout(Duration::from_secs(5), mux.next_bind_request()).await.unwrap().unwrap();
                assert_eq!(r.flow_id(), id);
                assert_eq!(r.bind_type(), bt);
                assert_eq!(r.port(), 0x8001);
                assert_eq!(r.host(), &host[..]);
                r.reply(ver == 7).unwrap();
                let mut want = vec![if ver == 7 { 0x73 } else { 0x72 }];
                want.extend(be32(id));
                assert_eq!(next_bin(&mut raw).await, want);
            }
        }
    }
    // outgoing Bind
    let mux = std::sync::Arc::new(mux);
    for (ty, bt) in [(1u8, BindType::Stream), (3, BindType::Datagram)] {
        for host in [vec![], b"0.0.0.0".to_vec(), vec![0x80; 300]] {
            let m2 = mux.clone();
            let h2 = host.clone();
            let req = tokio::spawn(async move { m2.request_bind(&h2, 0x0100, bt).await });
            let b = next_bin(&mut raw).await;
            let id = u32::from_be_bytes([b[1], b[2], b[3], b[4]]);
            let mut want = vec![0x75];
            want.extend(be32(id));
            want.push(ty);
            want.extend(0x0100u16.to_be_bytes());
            want.extend(&host);
            assert_eq!(b, want);
            let mut f = vec![0x03];
            f.extend(be32(id));
            raw.send(Message::Binary(f.into())).await.unwrap();
            assert!(tokio::time::timeout(Duration::from_secs(5), req).await.unwrap().unwrap().unwrap());
        }
    }
}

/// Only meaningful without debug assertions (the decoder `debug_assert!`s on short frames by design).
#[cfg(not(debug_assertions))]
#[tokio::test]
async fn invalid_frames_end_the_task_with_invalid_frame() {
    let bad: Vec<Vec<u8>> = vec![
        vec![],
        vec![0x74],
        vec![0x74, 0, 0, 0],
        vec![0x84, 0, 0, 0, 1],
        vec![0x77, 0, 0, 0, 1],
        vec![0x7f, 0, 0, 0, 1, 2, 3],
        vec![0x70, 0, 0, 0, 1, 0, 0, 0, 1, 0],
        vec![0x71, 0, 0, 0, 1, 0, 0, 0],
        vec![0x75, 0, 0, 0, 1, 1, 0],
        vec![0x75, 0, 0, 0, 1, 2, 0, 0],
        vec![0x75, 0, 0, 0, 1, 0, 0, 0, b'h'],
        vec![0x76, 0, 0, 0, 1, 0, 0],
        vec![0x76, 0, 0, 0, 1, 1, 0, 0],
        vec![0x76, 0, 0, 0, 1, 255, 0, 0, 1, 2, 3],
    ];
    for b in bad {
        let (mux, mut raw, mut js) = pair(Options::new().bind_buffer_size(1)).await;
        raw.send(Message::Binary(b.clone().into())).await.unwrap();
        let r = tokio::time::timeout(Duration::from_secs(5), js.join_next()).await.unwrap().unwrap().unwrap();
        assert!(matches!(r, Err(penguin_mux::Error::InvalidFrame(_))), "{b:02x?}: {r:?}");
        drop(mux);
    }
}

#[tokio::test]
async fn bridge_coalesced_push_layout() {
    let (mux, mut raw, _js) = pair(Options::new()).await;
    let req = tokio::spawn(async move {
        let s = mux.new_stream_channel(b"h", 1).await.unwrap();
        (mux, s)
    });
    let c = next_bin(&mut raw).await;
    let id = u32::from_be_bytes([c[1], c[2], c[3], c[4]]);
    let mut ack = vec![0x71];
    ack.extend(be32(id));
    ack.extend(be32(100));
    raw.send(Message::Binary(ack.into())).await.unwrap();
    let (_mux, s) = req.await.unwrap();
    let (mut local, remote) = tokio::io::duplex(1 << 20);
    let data: Vec<u8> = (0..50_001u32).map(|i| (i * 7 + i / 251) as u8).collect();
    local.write_all(&data).await.unwrap();
    let bridge = tokio::spawn(s.into_copy_bidirectional(remote));
    let mut got: Vec<u8> = Vec::new();
    let mut frames = 0;
    while got.len() < data.len() {
        let f = next_bin(&mut raw).await;
        assert_eq!(f[0], 0x74);
        assert_eq!(&f[1..5], &be32(id));
        assert!(f.len() > 5, "empty Push on the wire");
        got.extend(&f[5..]);
        frames += 1;
    }
    assert_eq!(got, data);
    assert!(frames >= 1);
    local.shutdown().await.unwrap();
    let mut fin = vec![0x73];
    fin.extend(be32(id));
    assert_eq!(next_bin(&mut raw).await, fin);
    raw.send(Message::Binary(fin.into())).await.unwrap();
    let (r, w) = tokio::time::timeout(Duration::from_secs(5), bridge).await.unwrap().unwrap().unwrap();
    assert_eq!((r, w), (0, data.len()));
}
