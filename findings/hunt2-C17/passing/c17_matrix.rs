//! C17 exploration: the full authentication matrix over an in-memory duplex,
//! plus hot reload. (Exploration only; expected to PASS.)

use rcgen::{
    BasicConstraints, CertificateParams, CertifiedIssuer, DnType, ExtendedKeyUsagePurpose, IsCa,
    KeyPair, KeyUsagePurpose,
};
use rusty_penguin_lib::tls::{
    init_crypto_provider, make_tls_identity, reload_tls_identity, tls_connect,
};
use std::path::Path;
use std::time::Duration;
use tokio::io::{AsyncReadExt, AsyncWriteExt};

struct Ca {
    issuer: CertifiedIssuer<'static, KeyPair>,
}

fn make_ca(cn: &str) -> Ca {
    let mut params = CertificateParams::new(Vec::<String>::new()).unwrap();
    params.distinguished_name.push(DnType::CommonName, cn);
    params.is_ca = IsCa::Ca(BasicConstraints::Unconstrained);
    params.key_usages = vec![KeyUsagePurpose::KeyCertSign, KeyUsagePurpose::CrlSign];
    let key = KeyPair::generate().unwrap();
    Ca {
        issuer: CertifiedIssuer::self_signed(params, key).unwrap(),
    }
}

/// Returns (cert pem, key pem)
fn leaf(ca: Option<&Ca>, cn: &str, sans: &[&str], client: bool) -> (String, String) {
    let mut params =
        CertificateParams::new(sans.iter().map(|s| (*s).to_string()).collect::<Vec<_>>()).unwrap();
    params.distinguished_name.push(DnType::CommonName, cn);
    params.extended_key_usages = vec![if client {
        ExtendedKeyUsagePurpose::ClientAuth
    } else {
        ExtendedKeyUsagePurpose::ServerAuth
    }];
    let key = KeyPair::generate().unwrap();
    let cert = match ca {
        Some(ca) => params.signed_by(&key, &ca.issuer).unwrap(),
        None => params.self_signed(&key).unwrap(),
    };
    (cert.pem(), key.serialize_pem())
}

fn write(dir: &Path, name: &str, content: &str) -> String {
    let p = dir.join(name);
    std::fs::write(&p, content).unwrap();
    p.to_str().unwrap().to_string()
}

#[derive(Debug, PartialEq, Eq, Clone, Copy)]
enum Outcome {
    Connected { server_saw_client_cert: bool },
    Failed,
}

/// One handshake + one round trip.
async fn attempt(
    server_cfg: std::sync::Arc<rustls::ServerConfig>,
    name: &str,
    cert: Option<&str>,
    key: Option<&str>,
    ca: Option<&str>,
    skip: bool,
) -> Outcome {
    let (a, b) = tokio::io::duplex(1 << 16);
    let server = tokio::spawn(async move {
        let acceptor = tokio_rustls::TlsAcceptor::from(server_cfg);
        let mut s = acceptor.accept(b).await.ok()?;
        let saw = s.get_ref().1.peer_certificates().is_some();
        let mut buf = [0u8; 4];
        s.read_exact(&mut buf).await.ok()?;
        s.write_all(b"pong").await.ok()?;
        s.flush().await.ok()?;
        Some(saw)
    });
    let client = async {
        let mut c = tls_connect(a, name, cert, key, ca, skip).await.ok()?;
        c.write_all(b"ping").await.ok()?;
        c.flush().await.ok()?;
        let mut buf = [0u8; 4];
        c.read_exact(&mut buf).await.ok()?;
        (&buf == b"pong").then_some(())
    };
    let c = tokio::time::timeout(Duration::from_secs(10), client)
        .await
        .expect("client hung");
    let s = tokio::time::timeout(Duration::from_secs(10), server)
        .await
        .expect("server hung")
        .unwrap();
    match (c, s) {
        (Some(()), Some(saw)) => Outcome::Connected {
            server_saw_client_cert: saw,
        },
        (None, None) => Outcome::Failed,
        // TLS 1.3: server may have finished its part while the client rejected, or vice versa
        (None, Some(_)) | (Some(()), None) => panic!("inconsistent: client {c:?} server {s:?}"),
    }
}

#[tokio::test]
async fn full_matrix() {
    init_crypto_provider();
    let tmp = tempfile::tempdir().unwrap();
    let d = tmp.path();
    let ca_trusted = make_ca("server CA trusted by client");
    let ca_other = make_ca("some other CA");
    let ca_clients = make_ca("client CA trusted by server");
    let ca_trusted_pem = write(d, "ca_trusted.pem", &ca_trusted.issuer.pem());
    let ca_clients_pem = write(d, "ca_clients.pem", &ca_clients.issuer.pem());

    // server certificates
    let mut server_ids = vec![];
    for (label, ca) in [
        ("trusted", Some(&ca_trusted)),
        ("other", Some(&ca_other)),
        ("selfsigned", None),
    ] {
        let (c, k) = leaf(ca, "server", &["server.test", "10.1.2.3"], false);
        let c = write(d, &format!("srv_{label}.crt"), &c);
        let k = write(d, &format!("srv_{label}.key"), &k);
        server_ids.push((label, c, k));
    }
    // client certificates
    let (c, k) = leaf(Some(&ca_clients), "good client", &[], true);
    let good_client = (write(d, "cli_good.crt", &c), write(d, "cli_good.key", &k));
    let (c, k) = leaf(Some(&ca_other), "bad client", &[], true);
    let bad_client = (write(d, "cli_bad.crt", &c), write(d, "cli_bad.key", &k));
    let (c, k) = leaf(None, "selfsigned client", &[], true);
    let ss_client = (write(d, "cli_ss.crt", &c), write(d, "cli_ss.key", &k));

    let mut n = 0;
    for (label, scert, skey) in &server_ids {
        for server_client_ca in [None, Some(ca_clients_pem.as_str())] {
            let identity = make_tls_identity(scert, skey, server_client_ca)
                .await
                .unwrap();
            for name in ["server.test", "SERVER.test", "10.1.2.3", "other.test", "10.1.2.4"] {
                let name_matches = matches!(name, "server.test" | "SERVER.test" | "10.1.2.3");
                for skip in [false, true] {
                    for (clabel, ccert) in [
                        ("none", None),
                        ("good", Some(&good_client)),
                        ("bad", Some(&bad_client)),
                        ("selfsigned", Some(&ss_client)),
                    ] {
                        let got = attempt(
                            identity.load_full(),
                            name,
                            ccert.map(|c| c.0.as_str()),
                            ccert.map(|c| c.1.as_str()),
                            Some(&ca_trusted_pem),
                            skip,
                        )
                        .await;
                        let server_ok = skip || (*label == "trusted" && name_matches);
                        let client_ok = server_client_ca.is_none() || clabel == "good";
                        let want = if server_ok && client_ok {
                            Outcome::Connected {
                                server_saw_client_cert: server_client_ca.is_some(),
                            }
                        } else {
                            Outcome::Failed
                        };
                        assert_eq!(
                            got, want,
                            "server cert {label}, server client-CA {server_client_ca:?}, name {name}, skip {skip}, client cert {clabel}"
                        );
                        n += 1;
                    }
                }
            }
        }
    }
    eprintln!("{n} cells checked");
}

#[tokio::test]
async fn reload_changes_later_handshakes_only() {
    init_crypto_provider();
    let tmp = tempfile::tempdir().unwrap();
    let d = tmp.path();
    let ca1 = make_ca("CA one");
    let ca2 = make_ca("CA two");
    let cca1 = make_ca("client CA one");
    let cca2 = make_ca("client CA two");
    let ca1_pem = write(d, "ca1.pem", &ca1.issuer.pem());
    let ca2_pem = write(d, "ca2.pem", &ca2.issuer.pem());
    let (c, k) = leaf(Some(&ca1), "server", &["server.test"], false);
    let cert = write(d, "srv.crt", &c);
    let key = write(d, "srv.key", &k);
    let client_ca = write(d, "clients.pem", &cca1.issuer.pem());
    let (c, k) = leaf(Some(&cca1), "client one", &[], true);
    let cli1 = (write(d, "cli1.crt", &c), write(d, "cli1.key", &k));
    let (c, k) = leaf(Some(&cca2), "client two", &[], true);
    let cli2 = (write(d, "cli2.crt", &c), write(d, "cli2.key", &k));

    let identity = make_tls_identity(&cert, &key, Some(&client_ca)).await.unwrap();

    // established connection under the first identity
    let (a, b) = tokio::io::duplex(1 << 16);
    let acceptor = tokio_rustls::TlsAcceptor::from(identity.load_full());
    let (s, c) = tokio::join!(
        acceptor.accept(b),
        tls_connect(a, "server.test", Some(&cli1.0), Some(&cli1.1), Some(&ca1_pem), false)
    );
    let (mut s, mut c) = (s.unwrap(), c.unwrap());

    let ok = Outcome::Connected { server_saw_client_cert: true };
    assert_eq!(attempt(identity.load_full(), "server.test", Some(&cli1.0), Some(&cli1.1), Some(&ca1_pem), false).await, ok);
    assert_eq!(attempt(identity.load_full(), "server.test", Some(&cli2.0), Some(&cli2.1), Some(&ca1_pem), false).await, Outcome::Failed);

    // a failing reload keeps the old identity
    std::fs::write(&key, "garbage").unwrap();
    reload_tls_identity(&identity, &cert, &key, Some(&client_ca)).await.unwrap_err();
    assert_eq!(attempt(identity.load_full(), "server.test", Some(&cli1.0), Some(&cli1.1), Some(&ca1_pem), false).await, ok);

    // replace everything
    let (nc, nk) = leaf(Some(&ca2), "server", &["server.test"], false);
    std::fs::write(&cert, nc).unwrap();
    std::fs::write(&key, nk).unwrap();
    std::fs::write(&client_ca, cca2.issuer.pem()).unwrap();
    reload_tls_identity(&identity, &cert, &key, Some(&client_ca)).await.unwrap();

    // later handshakes see the new server cert and the new client CA
    assert_eq!(attempt(identity.load_full(), "server.test", Some(&cli1.0), Some(&cli1.1), Some(&ca1_pem), false).await, Outcome::Failed);
    assert_eq!(attempt(identity.load_full(), "server.test", Some(&cli1.0), Some(&cli1.1), Some(&ca2_pem), false).await, Outcome::Failed);
    assert_eq!(attempt(identity.load_full(), "server.test", Some(&cli2.0), Some(&cli2.1), Some(&ca1_pem), false).await, Outcome::Failed);
    assert_eq!(attempt(identity.load_full(), "server.test", Some(&cli2.0), Some(&cli2.1), Some(&ca2_pem), false).await, ok);

    // cert / key mismatch on reload is refused
    let (_, other_key) = leaf(Some(&ca2), "server", &["server.test"], false);
    std::fs::write(&key, other_key).unwrap();
    reload_tls_identity(&identity, &cert, &key, Some(&client_ca)).await.unwrap_err();
    // empty client-CA on reload is refused (does not turn client auth off)
    std::fs::write(&client_ca, "").unwrap();
    reload_tls_identity(&identity, &cert, &key, Some(&client_ca)).await.unwrap_err();
    assert_eq!(attempt(identity.load_full(), "server.test", None, None, Some(&ca2_pem), false).await, Outcome::Failed);

    // the established connection is undisturbed
    c.write_all(b"still here").await.unwrap();
    c.flush().await.unwrap();
    let mut buf = [0u8; 10];
    s.read_exact(&mut buf).await.unwrap();
    assert_eq!(&buf, b"still here");
    s.write_all(b"yes indeed").await.unwrap();
    s.flush().await.unwrap();
    c.read_exact(&mut buf).await.unwrap();
    assert_eq!(&buf, b"yes indeed");
}
