#!/bin/bash
# Runs the C01 demo tests in a private network + mount namespace.
# In that namespace `localhost` is given the addresses it has on a stock Debian/Ubuntu
# (::1 and 127.0.0.1); nothing outside the namespace is touched.
set -e
cd /tmp/hunt-C01
mkdir -p penguin/tests
cp hunt/demo/penguin/tests/*.rs penguin/tests/
unshare -nm bash -c '
  mount --bind /tmp/hunt-C01/hunt/hosts /etc/hosts
  ip link set lo up
  RUST_BACKTRACE=0 CARGO_TARGET_DIR=/tmp/hunt-C01/target \
    cargo test -p rusty-penguin --offline -j 6 --no-fail-fast \
      --test hunt_c01 --test hunt_c01_unfixed -- --test-threads 4 2>&1
' || true
